#!/bin/bash
# offline install of monitor dependencies next to the repo's interpreter (idempotent)
set -e
cd "$(dirname "$0")"
if [ ! -f .deps/.ok ]; then
  rm -rf .deps
  PIP_NO_INDEX=1 /venv/bin/pip install -q --no-index --find-links /opt/veriftools/wheels \
      --target .deps icontract deal jsonschema >/dev/null 2>.deps.log || { cat .deps.log; exit 1; }
  rm -f .deps.log
  touch .deps/.ok
fi
mkdir -p .out evidence replays
echo "setup ok"
