"""C09 - ensemble solvers return the best member and account for all work.

The cost probe survives the deep copies the ensembles make of their member solvers (all
copies resolve to the same live probe), so every real cost call is logged; per-member
quantities are read through the documented _all_* / _total_evals properties."""
import math, itertools
import numpy as np
from .. import solverkit as K

PROPERTY = 'C09'
LEVEL = 'exploration'
TECHNIQUE = 'runtime monitoring: global cost-call log partitioned per member + invariants over the documented per-member properties; point generators vs explicit Cartesian products'
RULE = ('case = (ensemble type, dimension, bin layout / point count, nested solver, bounds, constraint, penalty, limits, map, step-vs-solve); non-trivial = '
        '>= 3 members with pairwise different final bests; generators: a grid with >= 2 axes of unequal length or a sample with >= 4 points; distinct by canonical JSON')
ASSUMPTIONS = ['per-member call partition uses the serial in-process map (members run one after another)',
               'a missing _all_* attribute would be inconclusive, not an alarm']
CLASSES = {
    'ensembles': {'quick': 1040, 'thorough': 5200},
    'wrappers': {'quick': 600, 'thorough': 4000},
    'generators': {'quick': 4800, 'thorough': 24000},
}
MIN_EVENTS = {'quick': {'assert:ens': 1000, 'assert:gen': 600, 'members': 400}}
CASE_TIMEOUT = 180


def run_ensemble(rng, obs):
    from mystic.solvers import (LatticeSolver, BuckshotSolver, SparsitySolver, NelderMeadSimplexSolver, PowellDirectionalSolver,
                                DifferentialEvolutionSolver)
    from mystic.termination import NormalizedChangeOverGeneration as NCOG, VTR
    dim = rng.randint(1, 4)
    which = rng.choice(['lattice', 'lattice', 'buckshot', 'sparsity'])
    nested = rng.choice(['nm', 'nm', 'powell', 'de'])
    # (flat-bottomed and piecewise-constant objectives: several members reach EXACTLY the same best energy, often exactly 0.0)
    spec = K.gen_cost(rng, dim, ['sphere', 'illquad', 'rosen', 'abs', 'maxnorm', 'plateau', 'step'])
    raw = K.make_cost(spec)
    box = K.gen_box(rng, dim, None, shape='finite')
    if spec[0] in ('plateau', 'step') and rng.random() < 0.7:
        box = {'lo': [round(c - 5.0, 2) for c in spec[1]], 'hi': [round(c + 5.0, 2) for c in spec[1]], 'shape': 'finite'}
    cons = K.gen_constraint(rng, dim, box) if rng.random() < 0.35 else None
    pen = K.gen_penalty(rng, dim) if rng.random() < 0.3 else None
    maxiter = rng.choice([2, 5, 15, 40]); maxfun = rng.choice([None, None, 60])
    step = rng.random() < 0.3
    mapname = rng.choice(['default', 'default', 'serial', 'reversed', 'pickling', 'pickling'])   # pickling = copy semantics of a process-based map
    mons = rng.choice(['none', 'none', 'evalmon', 'stepmon', 'both'])
    restart = rng.random() < 0.25
    if which == 'lattice':
        if rng.random() < 0.6:
            nbins = tuple(rng.randint(1, 3) for _ in range(dim)); nmem = int(np.prod(nbins))
        else:
            nbins = rng.choice([2, 3, 4, 5, 6, 7, 8, 9, 11, 12, 13]); nmem = nbins      # incl. primes: an integer is factorised over the axes, exactly
    else:
        nbins = None; nmem = rng.choice([2, 3, 4, 6])
    if which == 'sparsity': nmem = min(nmem, 3)
    obs.desc = {'ensemble': which, 'nested': nested, 'dim': dim, 'cost': spec, 'box': [box['lo'], box['hi']], 'cons': cons, 'pen': pen,
                'nbins': nbins, 'npts': nmem, 'maxiter': maxiter, 'maxfun': maxfun, 'step': step, 'map': mapname, 'monitors': mons, 'restart': restart}
    probe = K.CostProbe(raw)
    refc = K.ref_constraint(cons) if cons else None
    bad_box, bad_cons = [], []
    def hook(seq, x):
        if not K.in_box(x, box): bad_box.append((seq, x))
        if refc and refc(x) != x: bad_cons.append((seq, x))
    probe.hooks.append(hook)
    if which == 'lattice': s = LatticeSolver(dim, nbins=nbins)
    elif which == 'buckshot': s = BuckshotSolver(dim, npts=nmem)
    else:
        rtol = rng.choice([None, None, 0.5, -0.5])       # radial tolerance of the space-filling start points (negative: the quick method)
        s = SparsitySolver(dim, npts=nmem) if rtol is None else SparsitySolver(dim, npts=nmem, rtol=rtol)
        obs.desc['rtol'] = rtol
    ncls = {'nm': NelderMeadSimplexSolver, 'powell': PowellDirectionalSolver, 'de': DifferentialEvolutionSolver}[nested]
    reused = nested != 'de' and not step and not restart and rng.random() < 0.2
    if reused:
        # the nested solver handed over as an INSTANCE that an earlier ensemble (other cost, other ranges) has already used: the ensembles take
        # copies of it, so the second ensemble is exactly as good as if the instance were fresh
        inst = ncls(dim)
        other_cost = K.make_cost(['sphere', [9.0] * dim])
        e0 = LatticeSolver(dim, nbins=2)
        e0.SetNestedSolver(inst)
        e0.SetStrictRanges([c_ + 20.0 for c_ in box['lo']], [c_ + 20.0 for c_ in box['hi']])
        e0.SetEvaluationLimits(3, None)
        e0.Solve(lambda x: other_cost([float(v) for v in x]), disp=0)
        s.SetNestedSolver(inst)
        obs.desc['nested_instance_reused'] = True; obs.event('nested_instance_reused')
    else:
        s.SetNestedSolver(ncls)
    rmode = rng.choice([(None, None), (None, None), (True, None), (True, True), (None, True)])       # how the ensemble's ranges are to be imposed: tight / clip
    rkw = {}
    if rmode[0] is not None: rkw['tight'] = rmode[0]
    if rmode[1] is not None: rkw['clip'] = rmode[1]
    s.SetStrictRanges(list(box['lo']), list(box['hi']), **rkw)
    obs.desc['ranges_mode'] = list(rmode)
    s.SetEvaluationLimits(maxiter, maxfun)
    chosen = []
    if which == 'buckshot':
        if rng.random() < 0.4:       # starting points sampled from a user-supplied distribution reaching beyond the ranges
            s.SetDistribution(make_dist(rng, min(box['lo']), max(box['hi'])))
            obs.desc['dist'] = True; obs.event('sampled_from_a_distribution')
        real_ip = s._InitialPoints
        def _InitialPoints():
            pts = real_ip()
            chosen.append([[float(v) for v in p] for p in pts])
            return pts
        s._InitialPoints = _InitialPoints
    if cons: s.SetConstraints(K.make_constraint(cons))
    if pen: s.SetPenalty(K.make_penalty(pen))
    from mystic.monitors import Monitor
    from .c07 import MapZoo
    if mapname != 'default': s.SetMapper(getattr(MapZoo(obs.seed), mapname))
    evm = stm = None
    legacy = 0
    if mons in ('evalmon', 'both'):
        evm = Monitor()
        if rng.random() < 0.35:        # a monitor that already holds evaluations (legacy data, or one reused from an earlier run): they are not this run's work
            legacy = rng.randint(1, 6)
            for _ in range(legacy):
                xl = [rng.uniform(l, h) for l, h in zip(box['lo'], box['hi'])]
                evm(xl, float(raw(xl)))
        s.SetEvaluationMonitor(evm)
    obs.desc['legacy_evaluations_in_monitor'] = legacy
    if mons in ('stepmon', 'both'): stm = Monitor(); s.SetGenerationMonitor(stm)
    term = NCOG(1e-4, 2)
    n_before = probe.n
    s.Solve(probe, termination=term, disp=0, **({'step': True} if step else {}))
    ck = lambda ok, what, **kw: obs.check(ok, 'ens:' + what, ensemble=which, nested=nested, map=mapname, monitors=mons, restart=restart, **kw)
    if restart:     # continue the same ensemble with raised limits: the accounting is cumulative
        try:
            t1 = int(s._total_evals)
        except AttributeError as e:
            obs.skip('documented per-member property missing: %s' % e); return
        ck(t1 == probe.n - n_before, 'total evaluation count equals the number of real cost calls', total=t1, real=probe.n - n_before, step=step, phase='before restart')
        maxiter = maxiter + rng.choice([1, 3, 10])
        s.SetEvaluationLimits(maxiter, None if maxfun is None else maxfun + 40)
        s.Solve(disp=0, **({'step': True} if step else {}))
    calls = probe.calls[n_before:]
    try:
        allE, allX, allN, allI = list(s._all_bestEnergy), list(s._all_bestSolution), list(s._all_evals), list(s._all_iters)
        total = s._total_evals
    except AttributeError as e:
        obs.skip('documented per-member property missing: %s' % e); return
    allE = [K.fnum(e) for e in allE]
    obs.event('members', len(allE))
    ck(len(allE) == nmem, 'exactly as many members as requested', observed=len(allE), expected=nmem, nbins=nbins)
    finite = [e for e in allE if math.isfinite(e)]
    be = K.fnum(s.bestEnergy)
    ck(be == min(allE), 'reported best energy is the minimum of the member bests', observed=be, member_bests=allE)
    if finite:
        winners = [i for i, e in enumerate(allE) if e == be]
        bs = [float(v) for v in np.ravel(s.bestSolution)]
        ck(any(bs == [float(v) for v in np.ravel(allX[i])] for i in winners), 'reported solution is the best member\'s solution', best=bs, winners=winners)
    ck(total == sum(allN), 'total evaluation count is the sum over members', total=int(total), members=list(map(int, allN)))
    if not reused:     # (an instance that has run before brings its own counters along: counts are judged for fresh nested solvers)
        ck(total == len(calls), 'total evaluation count equals the number of real cost calls', total=int(total), real=len(calls), step=step,
           members=list(map(int, allN)))
    ck(len(calls) >= len(allE), 'every member starts inside the strict ranges', real_cost_calls=len(calls), members=len(allE), best=be,
       note='the cost is finite everywhere: a member that starts inside the ranges evaluates at least its starting point')
    if chosen:
        out = [p for p in chosen[0] if not K.in_box(p, box)]
        ck(len(chosen[0]) == nmem and not out, 'every member starts inside the strict ranges', starts=out[:3] or chosen[0][:2], n=len(chosen[0]), box=[box['lo'], box['hi']],
           note='the starting points the ensemble sampled for its members', dist=bool(obs.desc.get('dist')))
    ck(not bad_box, 'every cost call of every member lies inside the strict ranges', first=bad_box[:1])
    ck(not bad_cons, 'every cost call of every member satisfies the constraints', first=bad_cons[:1], cons=cons)
    if not reused:
        ck(all(int(i) <= maxiter for i in allI), 'every member honours the ensemble\'s generation limit', iters=list(map(int, allI)), maxiter=maxiter)
    if evm is not None:
        # the user's evaluation monitor stays a well-formed record: one cost per parameter vector, the entries it came with still in front
        ck(len(evm._x) == len(evm._y), 'the evaluation monitor holds one cost per recorded parameter vector', x_records=len(evm._x), y_records=len(evm._y), legacy=legacy)
    # each member is subject to the ensemble's bounds - the same box, imposed the same way (tight / clip)
    if not reused:
        odd = []
        for k_, m_ in enumerate(s._allSolvers):
            same_box = [float(v) for v in m_._strictMin] == [float(v) for v in box['lo']] and [float(v) for v in m_._strictMax] == [float(v) for v in box['hi']]
            same_mode = (m_._useTightRange, m_._useClipRange) == (s._useTightRange, s._useClipRange)
            if not (same_box and same_mode and m_._useStrictRange): odd.append({'member': k_, 'tight': m_._useTightRange, 'clip': m_._useClipRange, 'strict': bool(m_._useStrictRange)})
        ck(not odd, 'every member is subject to the ensemble\'s ranges, imposed the way the ensemble was told (tight / clip)', members=odd[:3], ensemble_mode=[s._useTightRange, s._useClipRange], step=step)
    msgs = s.Terminated(all=True, info=True)
    ck(all(bool(m) for m in msgs), 'every member stopped with a stop message', messages=[str(m)[:60] for m in msgs])
    # first evaluated point of each member (serial map, run-to-completion: members run one after another)
    # (the ensemble's own `evaluations` / evaluation monitor mirror the best member by design; the total is `_total_evals`)
    if stm is not None and finite:
        eh = [K.fnum(e) for e in s.energy_history]
        ck(bool(eh) and eh[-1] == be, 'the ensemble\'s energy history ends at the reported best energy', last=eh[-1:], best=be, n=len(eh))
    if not step and not restart and mapname in ('default', 'serial') and total == len(calls) and total == sum(allN) and nested != 'de':
        starts, ofs = [], 0
        for n in allN:
            if n > 0: starts.append(list(calls[ofs][0]))
            ofs += int(n)
        ck(all(K.in_box(p, box) for p in starts), 'every member starts inside the strict ranges', starts=starts[:4])
        if which == 'lattice' and cons is None and len(starts) == nmem:
            if isinstance(nbins, tuple): layouts = [nbins]
            else:   # an integer is factorised over the axes: recover the layout from the distinct coordinates
                layouts = [tuple(len(set(round(p[i], 12) for p in starts)) for i in range(dim))]
                ck(int(np.prod(layouts[0])) == nmem, 'an integer nbins is factorised into per-axis bins whose product is nbins', layout=layouts[0], nbins=nbins)
            lay = layouts[0]
            centres = [[box['lo'][i] + (j + 0.5) * (abs(box['hi'][i] - box['lo'][i]) / lay[i]) for j in range(lay[i])] for i in range(dim)]
            want = sorted(tuple(round(v, 9) for v in p) for p in itertools.product(*centres))
            got = sorted(tuple(round(v, 9) for v in p) for p in starts)
            ck(got == want, 'lattice members start at the centres of their grid cells', layout=lay, observed=got[:4], expected=want[:4])
    distinct = len(set(round(e, 12) for e in finite))
    obs.nontrivial = distinct >= 3
    obs.notes = {'members': len(allE), 'total_evals': int(total), 'distinct_member_bests': distinct, 'bestE': be}


def run_wrappers(rng, obs):
    """the one-liners lattice() / buckshot() / sparsity(): the bounds=, constraints= and penalty= keywords reach every member, the returned
    allfuncalls is the number of real cost calls, the returned optimum is the best evaluated objective"""
    from mystic.solvers import lattice, buckshot, sparsity, NelderMeadSimplexSolver, PowellDirectionalSolver
    which = rng.choice(['lattice', 'buckshot', 'sparsity'])
    dim = rng.randint(1, 3)
    spec = K.gen_cost(rng, dim, ['sphere', 'illquad', 'rosen', 'abs'])
    raw = K.make_cost(spec)
    box = K.gen_box(rng, dim, None, shape='finite')
    cons = K.gen_constraint(rng, dim, box) if rng.random() < 0.5 else None
    pen = K.gen_penalty(rng, dim) if rng.random() < 0.4 else None
    n = rng.choice([2, 3, 4, 5]) if which != 'sparsity' else rng.choice([2, 3])
    maxiter = rng.choice([3, 10, 30]); maxfun = rng.choice([None, 150])
    nested = rng.choice([None, None, 'nm', 'powell'])
    obs.desc = {'wrapper': which, 'dim': dim, 'cost': spec, 'box': [box['lo'], box['hi']], 'cons': cons, 'pen': pen, 'n': n, 'maxiter': maxiter, 'maxfun': maxfun, 'nested': nested}
    probe = K.CostProbe(raw)
    refc = K.ref_constraint(cons) if cons else None
    refpen = K.ref_penalty(pen)
    bad_box, bad_cons, vals = [], [], []
    def hook(seq, x):
        if not K.in_box(x, box) and len(bad_box) < 3: bad_box.append([seq, list(x)])
        if refc and refc(list(x)) != list(x) and len(bad_cons) < 3: bad_cons.append([seq, list(x)])
    probe.hooks.append(hook)
    kw = {'disp': 0, 'full_output': 1, 'bounds': list(zip(box['lo'], box['hi'])), 'maxiter': maxiter, 'maxfun': maxfun}
    if cons: kw['constraints'] = K.make_constraint(cons)
    if pen: kw['penalty'] = K.make_penalty(pen)
    if nested: kw['solver'] = {'nm': NelderMeadSimplexSolver, 'powell': PowellDirectionalSolver}[nested]
    inst_limit = None
    if nested and not cons and not pen and rng.random() < 0.45:
        # (only with plain ranges: a configured instance is handed the ensemble-decorated cost, so with constraints it reports unconstrained points - same mechanism as the recorded counting finding)
        # the nested solver as a configured instance that carries its own generation limit, the wrapper's limits left alone: the members
        # run under the instance's limit, and the warnflag must say so
        inst_limit = rng.choice([2, 5])
        inst = kw['solver'](dim); inst.SetEvaluationLimits(generations=inst_limit)
        kw['solver'] = inst; kw['maxiter'] = None; kw['maxfun'] = None; maxiter, maxfun = inst_limit, None
        kw['ftol'] = 1e-12          # (so that the members do not converge before their limit)
        obs.desc['nested_instance_generation_limit'] = inst_limit; obs.event('nested_instance_with_its_own_limit')
    fn = {'lattice': lattice, 'buckshot': buckshot, 'sparsity': sparsity}[which]
    if which == 'sparsity' and rng.random() < 0.4: kw['rtol'] = rng.choice([0.5, -0.5]); obs.desc['rtol'] = kw['rtol']
    out = fn(probe, dim, **({'nbins': n} if which == 'lattice' else {'npts': n}), **kw)
    xopt, fopt, allcalls = [float(v) for v in np.atleast_1d(out[0])], float(out[1]), int(out[5])
    ck = lambda ok, what, **k2: obs.check(ok, 'ens:' + what, ensemble=which, nested=nested, map='default', monitors='wrapper', restart=False, **k2)
    ck(not bad_box, 'every cost call of every member lies inside the strict ranges', first=bad_box, through='bounds= keyword')
    ck(not bad_cons, 'every cost call of every member satisfies the constraints', first=bad_cons, cons=cons, through='constraints= keyword')
    ck(allcalls == probe.n, 'total evaluation count equals the number of real cost calls', total=allcalls, real=probe.n, step=False, through='allfuncalls of the wrapper',
       nested_given_as_configured_instance=inst_limit is not None, ranges_in_force=True)
    if math.isfinite(fopt):
        objs = [K.fnum(c[1]) + refpen(list(c[0])) for c in probe.calls]
        if nested != 'powell':     # (Powell evaluates an extrapolated point it need not adopt: its best is an evaluated objective value, not necessarily the least one ever seen)
            ck(abs(fopt - min(objs)) <= 1e-12 * max(1.0, abs(fopt)), 'reported best energy is the minimum of the member bests', observed=fopt, member_bests=[min(objs)],
               through='best objective over all evaluated points')
        else:
            ck(any(abs(fopt - o_) <= 1e-12 * max(1.0, abs(fopt)) for o_ in objs), 'reported best energy is the minimum of the member bests', observed=fopt, member_bests=[min(objs)],
               through='the reported energy is the objective at some evaluated point')
        ck(tuple(xopt) in set(c[0] for c in probe.calls), 'reported solution is the best member\'s solution', best=xopt, winners=[])
    it, fc, wf = int(out[2]), int(out[3]), int(out[4])
    if wf == 1: okw = maxfun is not None and fc >= maxfun
    elif wf == 2: okw = it >= maxiter
    else: okw = it < maxiter and (maxfun is None or fc < maxfun)
    ck(okw, 'every member honours the ensemble\'s generation limit', iters=[it], maxiter=maxiter, warnflag=wf, funcalls=fc, maxfun=maxfun,
       through='warnflag of the wrapper names the limit that the reported member reached')
    obs.event('members', n); obs.event('wrapper_cases')
    obs.nontrivial = probe.n > 10 * n
    obs.notes = {'cost_calls': probe.n, 'fopt': fopt}


def make_dist(rng, lo, hi):
    """a mystic Distribution with a good part of its mass outside [lo, hi]"""
    from mystic.math import Distribution
    mid, w = 0.5 * (lo + hi), max(hi - lo, 0.5)
    kind = rng.choice(['normal', 'normal', 'uniform', 'laplace'])
    if kind == 'normal': return Distribution('numpy.random.normal', mid + rng.choice([0.0, 0.4 * w]), w * rng.choice([0.5, 1.0, 2.0]))
    if kind == 'laplace': return Distribution('numpy.random.laplace', mid, w * rng.choice([0.5, 1.0]))
    return Distribution('numpy.random.uniform', lo - w * rng.choice([0.5, 2.0]), hi + w * rng.choice([0.0, 1.0]))


def run_generators(rng, obs):
    from mystic.math.grid import gridpts, samplepts, fillpts, randomly_bin
    from mystic.math.samples import random_samples
    which = rng.choice(['gridpts', 'gridpts', 'samplepts', 'random_samples', 'randomly_bin', 'randomly_bin', 'fillpts'])
    ck = lambda ok, what, **kw: obs.check(ok, 'gen:' + what, **kw)
    obs.desc = {'generator': which}
    if which == 'gridpts':
        d = rng.randint(1, 4)
        q = [[round(rng.uniform(-5, 5), 2) for _ in range(rng.randint(1, 4))] for _ in range(d)]
        got = gridpts([list(a) for a in q])
        want = [list(p) for p in itertools.product(*q)]
        ck(got == want, 'gridpts enumerates the full Cartesian product of the bins in the documented order', q=q, observed=got[:6], expected=want[:6], n=[len(got), len(want)])
        obs.desc['q'] = q
        obs.nontrivial = d >= 2 and len(set(len(a) for a in q)) >= 2
    elif which in ('samplepts', 'random_samples'):
        d = rng.randint(1, 5); n = rng.randint(1, 12)
        lb = [round(rng.uniform(-5, 5), 2) for _ in range(d)]; ub = [l + rng.choice([0.0, 0.5, 4.0]) for l in lb]
        # the dist option: draws come from a user-supplied distribution (one for all axes, or one per axis) whose mass reaches beyond the ranges;
        # out-of-range draws are redrawn (or, with clip=True, clipped) - either way every returned coordinate is inside [lb, ub]
        dk = rng.choice(['none', 'none', 'one', 'per_axis'])
        clip = None
        dist = None
        if dk != 'none':
            ub = [l + rng.choice([0.5, 4.0]) for l in lb]
            dist = [make_dist(rng, l, u) for l, u in zip(lb, ub)]
            if dk == 'one': dist = make_dist(rng, min(lb), max(ub))
        if which == 'samplepts':
            pts = samplepts(list(lb), list(ub), n) if dist is None else samplepts(list(lb), list(ub), n, dist)
            ck(len(pts) == n and all(len(p) == d for p in pts), 'samplepts returns npts points of the right dimension', shape=[len(pts), d])
        else:
            kw = {}
            if dist is not None:
                clip = rng.choice([None, False, True])
                kw = {'dist': dist}
                if clip is not None: kw['clip'] = clip
            arr = random_samples(list(lb), list(ub), n, **kw)
            ck(arr.shape == (d, n), 'random_samples returns a (dim, npts) array', shape=list(arr.shape))
            pts = arr.T.tolist()
        obs.desc.update({'dist': dk, 'clip': clip})
        if dist is not None: obs.event('sampled_from_a_distribution')
        ck(all(l <= v <= u for p in pts for v, l, u in zip(p, lb, ub)), 'sampled points stay within their ranges', lb=lb, ub=ub, pts=pts[:3], dist=dk, clip=clip)
        obs.desc.update({'lb': lb, 'ub': ub, 'npts': n})
        obs.nontrivial = n >= 4
    elif which == 'randomly_bin':
        N = rng.choice([1, 2, 3, 4, 6, 8, 12, 16, 30, 36, 7, 13]); d = rng.randint(1, 5)
        ones = rng.random() < 0.7
        b = randomly_bin(N, d, ones=ones, exact=True)
        ck(len(b) == d and int(np.prod(b)) == N and all(int(v) == v and v >= 1 for v in b), 'randomly_bin(N, d) gives d positive integers whose product is N',
           N=N, d=d, ones=ones, observed=[int(v) for v in b])
        obs.desc.update({'N': N, 'ndim': d, 'ones': ones})
        obs.nontrivial = N >= 4 and d >= 2
    else:
        d = rng.randint(1, 2); n = rng.randint(1, 3)
        lb = [round(rng.uniform(-3, 0), 1) for _ in range(d)]; ub = [l + rng.choice([1.0, 4.0]) for l in lb]
        data = [[rng.uniform(l, u) for l, u in zip(lb, ub)] for _ in range(rng.randint(0, 3))]
        rtol = rng.choice([None, None, 0.5, 2.0, -0.5])
        mine = [list(p) for p in data]
        pts = fillpts(list(lb), list(ub), n, data=mine or None, **({} if rtol is None else {'rtol': rtol}))
        obs.desc['rtol'] = rtol
        ck(mine == [list(p) for p in data], 'the legacy points handed to fillpts are left as they were', before=[list(p) for p in data], after=mine[:6])
        ck(len(pts) == n and all(l - 1e-12 <= v <= u + 1e-12 for p in pts for v, l, u in zip(p, lb, ub)), 'space-filling points stay within their ranges',
           lb=lb, ub=ub, pts=pts)
        obs.desc.update({'lb': lb, 'ub': ub, 'npts': n, 'ndata': len(data)})
        obs.nontrivial = n >= 2


def run_case(cls, idx, rng, obs):
    import warnings
    warnings.simplefilter('ignore')
    np.seterr(all='ignore')
    return {'ensembles': run_ensemble, 'generators': run_generators, 'wrappers': run_wrappers}[cls](rng, obs)
