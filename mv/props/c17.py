"""C17 - combinators claim success only at a fixed point; couplers compose as documented.

and_/or_/not_ (constraints) are called with onexit/onfail probes that record which
path fired; the post-condition for that path is evaluated with the harness's own copies
of the member constraints.  random.randint/random.random are counted while the
combinator runs to show the cycle-breaking branch was reached."""
import random as _random
import math

PROPERTY = 'C17'
LEVEL = 'exploration'
TECHNIQUE = 'invariant at a hook: onexit/onfail probes + fixed-point post-conditions; random-call counter for cycle breaking; differential check of couplers'
RULE = ('case = (combinator, 1-4 idempotent member constraints from {pin, clamp, round, tie, sort, parity-pin}, input, '
        'maxiter) or a coupler/penalty-combinator composition; non-trivial = the call needed >= 2 passes over the members, '
        'or took the failure path, or drew random numbers (cycle-breaking reached); distinct by canonical JSON')
ASSUMPTIONS = ['member constraints are deterministic and idempotent (the documented requirement); non-idempotent members '
               'are run as a hostile class whose violations are counted but not reported',
               'completeness is only asserted where success is reachable by plain cycling: commuting members must end on '
               'the success path; members with no common fixed point must end on the failure path']
CLASSES = {
    'and': {'quick': 45000, 'thorough': 450000},
    'or': {'quick': 27000, 'thorough': 270000},
    'not': {'quick': 14400, 'thorough': 144000},
    'couplers': {'quick': 14400, 'thorough': 144000},
    'penalty_comb': {'quick': 14400, 'thorough': 144000},
    'and_nonidempotent': {'quick': 5400, 'thorough': 54000},
}
MIN_EVENTS = {'quick': {'assert:and': 2000, 'assert:or': 1200, 'assert:not': 600, 'assert:coupler': 1500,
                        'assert:pcomb': 1500, 'path:onexit': 1500, 'path:onfail': 300, 'random_draws': 500}}


# ------------------------------------------------------------ member zoo (JSON spec -> function)
def member(spec, inplace=False):
    """inplace=True: the member edits the vector it is handed and returns that same object (legal for a constraint)"""
    pure = _member(spec)
    if not inplace:
        return pure
    def c(x):
        y = pure(x)
        x[:] = y
        return x
    return c


def _member(spec):
    k = spec[0]
    if k == 'pin':
        _, i, v = spec
        def c(x): x = list(x); x[i] = v; return x
    elif k == 'clamp':
        _, i, lo, hi = spec
        def c(x): x = list(x); x[i] = min(max(x[i], lo), hi); return x
    elif k == 'round':
        def c(x): return [float(round(v)) for v in x]
    elif k == 'tie':
        _, i, j = spec
        def c(x): x = list(x); x[j] = x[i]; return x
    elif k == 'sort':
        def c(x): return sorted(x)
    elif k == 'floor0':       # x[i] >= lo, expressed on all entries
        _, lo = spec
        def c(x): return [max(v, lo) for v in x]
    elif k == 'halve':        # NOT idempotent (hostile class only)
        def c(x): return [v / 2.0 for v in x]
    elif k == 'round1':
        def c(x): return [float(round(v, 1)) for v in x]
    else:
        raise KeyError(k)
    return c


def gen_member(rng, dim):
    r = rng.random()
    if r < 0.35: return ['pin', rng.randrange(dim), rng.choice([0.0, 1.0, 2.0, -1.5])]
    if r < 0.6:
        lo = rng.choice([-2.0, 0.0, 1.0]); return ['clamp', rng.randrange(dim), lo, lo + rng.choice([0.0, 1.0, 3.0])]
    if r < 0.7: return ['round']
    if r < 0.82 and dim > 1:
        i = rng.randrange(dim); j = (i + 1 + rng.randrange(dim - 1)) % dim
        return ['tie', i, j]
    if r < 0.9: return ['sort']
    return ['floor0', rng.choice([-1.0, 0.0, 0.5])]


def gen_x(rng, dim):
    return [rng.choice([-3.0, -1.0, 0.0, 0.4, 1.0, 2.0, 2.6, 5.0]) + rng.choice([0.0, 0.0, 0.25]) for _ in range(dim)]


class Counter(object):
    """counts random.randint / random.random calls made while a combinator runs"""
    def __enter__(self):
        self.n = 0
        self._ri, self._rr = _random.randint, _random.random
        def ri(*a, **k):
            self.n += 1; return self._ri(*a, **k)
        def rr(*a, **k):
            self.n += 1; return self._rr(*a, **k)
        _random.randint, _random.random = ri, rr
        return self
    def __exit__(self, *a):
        _random.randint, _random.random = self._ri, self._rr


class Paths(object):
    def __init__(self):
        self.fired = []
    def onexit(self, x):
        self.fired.append('onexit'); return x
    def onfail(self, x):
        self.fired.append('onfail'); return x


class CountCalls(object):
    def __init__(self, f):
        self.f, self.n = f, 0
    def __call__(self, x):
        self.n += 1
        return self.f(x)


def pins_conflict(specs):
    """two pins of the same index to different values: no common fixed point"""
    pins = {}
    for s in specs:
        if s[0] == 'pin':
            if s[1] in pins and pins[s[1]] != s[2]: return True
            pins[s[1]] = s[2]
    return False


def commuting(specs):
    """members acting on pairwise different single coordinates commute: plain cycling must succeed"""
    idx = []
    for s in specs:
        if s[0] in ('pin', 'clamp'): idx.append(s[1])
        else: return False
    return len(set(idx)) == len(idx)


def run_combinator(kind, rng, obs, hostile=False):
    import mystic.constraints as mc
    dim = rng.randint(1, 4)
    n = rng.randint(1, 4) if kind != 'not' else 1
    if hostile:
        specs = [['halve'], ['round1']] if rng.random() < 0.5 else [['halve'], gen_member(rng, dim)]
    else:
        specs = [gen_member(rng, dim) for _ in range(n)]
        if rng.random() < 0.25 and kind == 'and':      # force a conflict / cycle
            i = rng.randrange(dim)
            specs = [['pin', i, 1.0], ['pin', i, 2.0]] + specs[:rng.randint(0, 1)]
    if not hostile and kind == 'and' and rng.random() < 0.2 and dim >= 3:
        # a chain that needs several sweeps to settle: ties handed down the vector plus a pin at its head
        order = list(range(dim)); rng.shuffle(order)
        specs = [['tie', order[j], order[j + 1]] for j in range(dim - 1)][::-1] + [['pin', order[0], rng.choice([1.0, 2.0, -1.5])]]
    inplace = [rng.random() < 0.5 for _ in specs]
    mine = [member(s) for s in specs]                  # the oracle's own (pure) copies
    theirs = [CountCalls(member(s, ip)) for s, ip in zip(specs, inplace)]
    x0 = gen_x(rng, dim)
    maxiter = rng.choice([None, None, 1, 2, 5, 30])
    # which of the two hooks the caller installs must not matter: the path taken is inferred from the hook(s) present
    hooks = rng.choice(['both', 'both', 'both', 'onexit', 'onfail', 'none'])
    def build(paths, which):
        kw = {}
        if which in ('both', 'onexit'): kw['onexit'] = paths.onexit
        if which in ('both', 'onfail'): kw['onfail'] = paths.onfail
        if maxiter is not None: kw['maxiter'] = maxiter
        ms = [CountCalls(member(s, ip)) for s, ip in zip(specs, inplace)]
        if kind == 'and' or kind == 'and_nonidempotent': return mc.and_(*ms, **kw), ms
        if kind == 'or': return mc.or_(*ms, **kw), ms
        return mc.not_(ms[0], **kw), ms
    paths = Paths()
    comb, theirs = build(paths, 'both')
    xin = list(x0)
    rstate = _random.getstate()
    with Counter() as cnt:
        out = comb(xin)
    out = list(out)
    obs.desc = {'kind': kind, 'members': specs, 'inplace': inplace, 'x': x0, 'maxiter': maxiter, 'hooks': hooks}
    tag = kind if not hostile else 'and'
    obs.check(xin == x0, tag + ':the input vector is not modified', x=x0, observed=xin)
    obs.check(len(paths.fired) == 1, tag + ':exactly one of the success/failure paths is taken',
              members=specs, x=x0, observed=paths.fired)
    if len(paths.fired) != 1:
        return
    if hooks != 'both':
        p2 = Paths()
        comb2, _ = build(p2, hooks)
        after = _random.getstate(); _random.setstate(rstate)       # same cycle-breaking draws as the reference call
        try:
            out2 = list(comb2(list(x0)))
        finally:
            _random.setstate(after)
        want = [f for f in paths.fired if f == hooks]               # the installed hook fires iff its path is the one taken
        obs.check(p2.fired == want and out2 == out, tag + ':the path taken and the result do not depend on which hooks are installed', hooks=hooks,
                  fired=p2.fired, expected_fired=want, result=out2, with_both_hooks=out, members=specs, x=x0, maxiter=maxiter)
        obs.event('partial_hook_calls')
    path = paths.fired[0]
    obs.event('path:' + path)
    obs.event('random_draws', cnt.n)
    unchanged = [c(list(out)) == out for c in mine]
    if path == 'onexit':
        if kind.startswith('and'):
            # for each member that changes the result: is it idempotent at the result, m(m(r)) == m(r)?
            viol_idem = [c(c(list(out))) == c(list(out)) for c, u in zip(mine, unchanged) if not u]
            obs.check(all(unchanged), 'and:success implies every member leaves the result unchanged',
                      members=specs, x=x0, result=out, unchanged=unchanged,
                      violated_members_idempotent_at_result=viol_idem)
        elif kind == 'or':
            obs.check(any(unchanged), 'or:success implies at least one member leaves the result unchanged',
                      members=specs, x=x0, result=out, unchanged=unchanged)
        else:
            obs.check(not unchanged[0], 'not:success implies the member changes the result', members=specs, x=x0, result=out)
    else:
        if kind == 'and' and commuting(specs) and (maxiter is None or maxiter >= 3):
            obs.check(False, 'and:commuting members must reach the success path', members=specs, x=x0, maxiter=maxiter)
        if kind == 'or' and (maxiter is None or maxiter >= 3):
            # or_ must succeed whenever some member already accepts the input
            obs.check(not any(c(list(x0)) == x0 for c in mine), 'or:input accepted by a member must succeed',
                      members=specs, x=x0)
    if path == 'onexit' and kind == 'and' and pins_conflict(specs):
        obs.check(False, 'and:members without a common fixed point cannot succeed', members=specs, x=x0, result=out)
    ncalls = sum(t.n for t in theirs)
    # the combined constraint used once more on another vector: it must answer as a freshly built one does (no state kept from the first call)
    x1 = gen_x(rng, dim)
    p3 = Paths(); comb3, _ = build(p3, 'both')
    del paths.fired[:]
    st = _random.getstate()
    out_a = list(comb(list(x1))); fired_a = list(paths.fired)
    after = _random.getstate(); _random.setstate(st)
    try:
        out_b = list(comb3(list(x1)))
    finally:
        _random.setstate(after)
    obs.check(fired_a == p3.fired and out_a == out_b, tag + ':a combined constraint keeps no state between calls', members=specs, first_x=x0, second_x=x1,
              reused=[fired_a, out_a], fresh=[p3.fired, out_b], maxiter=maxiter)
    obs.event('reuse_calls')
    # ... and applied to its own previous answer (c(c(x))): again what a freshly built one says about that vector
    p4 = Paths(); comb4, _ = build(p4, 'both')
    del paths.fired[:]
    st = _random.getstate()
    out_c = list(comb(list(out_a))); fired_c = list(paths.fired)
    after = _random.getstate(); _random.setstate(st)
    try:
        out_d = list(comb4(list(out_a)))
    finally:
        _random.setstate(after)
    obs.check(fired_c == p4.fired and out_c == out_d, tag + ':a combined constraint keeps no state between calls', members=specs, first_x=x1, second_x=out_a,
              reused=[fired_c, out_c], fresh=[p4.fired, out_d], maxiter=maxiter, applied_to_its_own_answer=True)
    obs.nontrivial = (ncalls > len(specs)) or path == 'onfail' or cnt.n > 0
    obs.notes = {'path': path, 'member_calls': ncalls, 'random_draws': cnt.n, 'result': out}


def close(a, b):
    return a == b or abs(a - b) <= 1e-12 * max(abs(a), abs(b))


def run_couplers(rng, obs):
    from mystic.coupler import inner, outer, inner_proxy, outer_proxy, additive, additive_proxy
    dim = rng.randint(1, 4)
    cs = gen_member(rng, dim)
    c = member(cs)
    a = [rng.choice([-2.0, 0.5, 1.0, 3.0]) for _ in range(dim)]
    f = lambda x: sum(ai * xi * xi for ai, xi in zip(a, x))         # scalar-valued
    g = lambda x: [ai * xi + 1.0 for ai, xi in zip(a, x)]           # vector-valued
    p = lambda x: abs(sum(x)) * 0.5
    shift = rng.choice([0.0, 1.0, -2.0])
    fa = lambda x, s: f(x) + s
    ca = lambda x, s: [v + s for v in c(x)]
    seen_change = False
    for _ in range(4):
        x = gen_x(rng, dim)
        if c(list(x)) != x: seen_change = True
        obs.check(close(inner(c)(f)(list(x)), f(c(list(x)))), 'coupler:inner(c)(f)(x) == f(c(x))', c=cs, x=x)
        obs.check(outer(c)(g)(list(x)) == c(g(list(x))), 'coupler:outer(c)(f)(x) == c(f(x))', c=cs, x=x)
        obs.check(close(additive(p)(f)(list(x)), f(x) + p(x)), 'coupler:additive(p)(f)(x) == f(x)+p(x)', x=x)
        # extra arguments: inner/outer/additive pass call-time args to f, decorator args to c/p
        obs.check(close(inner(ca, args=(shift,))(fa)(list(x), 2.0), fa(ca(list(x), shift), 2.0)),
                  'coupler:inner passes decorator args to c and call args to f', x=x)
        obs.check(close(inner_proxy(ca, args=(2.0,))(fa)(list(x), shift), fa(ca(list(x), shift), 2.0)),
                  'coupler:inner_proxy passes call args to c and decorator args to f', x=x)
        obs.check(outer_proxy(ca, args=(2.0,))(lambda x, s: [v * s for v in x])(list(x), shift)
                  == ca([v * 2.0 for v in x], shift), 'coupler:outer_proxy passes call args to c and decorator args to f', x=x)
        obs.check(close(additive_proxy(lambda x, s: p(x) * s, args=(2.0,))(fa)(list(x), shift), fa(x, 2.0) + p(x) * shift),
                  'coupler:additive_proxy passes call args to p and decorator args to f', x=x)
    obs.desc = {'c': cs, 'a': a, 'shift': shift, 'dim': dim}
    obs.nontrivial = seen_change
    obs.notes = {'constraint_changed_some_input': seen_change}


def run_penalty_comb(rng, obs):
    """penalty and_/or_ zero exactly where all/any member penalties are zero; not_ penalises the interior"""
    import mystic.penalty as mp
    from mystic.coupler import and_, or_, not_
    dim = rng.randint(1, 3)
    mk = []
    specs = []
    for _ in range(rng.randint(1, 3)):
        i, b = rng.randrange(dim), rng.choice([0.0, 1.0, -1.0])
        # every penalty type that vanishes on its feasible set (the lagrange types do at iteration 0; the barrier type never does)
        t = rng.choice(['quadratic_inequality', 'linear_inequality', 'quadratic_equality', 'linear_equality', 'uniform_inequality', 'uniform_equality',
                        'lagrange_inequality', 'lagrange_equality'])
        cond = (lambda x, i=i, b=b: x[i] - b)
        specs.append([t, i, b])
        mk.append(getattr(mp, t)(cond, k=rng.choice([1, 10]))(lambda x: 0.0))
    pa, po = and_(*mk), or_(*mk)
    zs = set()
    for _ in range(6):
        x = [rng.choice([-2.0, -1.0, 0.0, 1.0, 2.0]) for _ in range(dim)]
        vals = [m(x) for m in mk]
        zs.add(all(v == 0 for v in vals)); zs.add(any(v == 0 for v in vals))
        obs.check((pa(x) == 0) == all(v == 0 for v in vals), 'pcomb:and_ is zero exactly where all member penalties are zero',
                  members=specs, x=x, member_values=vals, observed=pa(x))
        obs.check((po(x) == 0) == any(v == 0 for v in vals), 'pcomb:or_ is zero exactly where some member penalty is zero',
                  members=specs, x=x, member_values=vals, observed=po(x))
        obs.check(close(pa(x), abs(sum(vals))) and close(po(x), abs(min(vals))),
                  'pcomb:default combination is the plain sum / minimum', x=x, observed=[pa(x), po(x)], member_values=vals)
    # not_
    t, i, b = specs[0]
    pn = not_(mk[0])
    for _ in range(5):
        x = [rng.choice([-2.0, -1.0, 0.0, 1.0, 2.0]) for _ in range(dim)]
        cv = x[i] - b
        if t.endswith('_inequality'):
            interior = cv < 0          # member accepts cv <= 0; its interior is cv < 0
        else:
            interior = cv == 0         # member accepts cv == 0
        obs.check((pn(x) > 0) == interior, 'pcomb:not_ penalises exactly the interior of the accepted region',
                  member=specs[0], x=x, observed=pn(x), interior=interior)
        zs.add(interior)
    # not_ of a raw condition with the penalty type named explicitly (ptype=): the kind of THAT type says how the condition is read -
    # as an inequality (accepted: c(x) <= 0, interior c(x) < 0) or as an equality (accepted: c(x) == 0)
    tname = rng.choice(['quadratic_inequality', 'linear_inequality', 'uniform_inequality', 'quadratic_equality', 'linear_equality', 'uniform_equality'])
    i2, b2 = rng.randrange(dim), rng.choice([0.0, 1.0, -1.0])
    raw_cond = (lambda x, i=i2, b=b2: x[i] - b)
    src = rng.choice(['raw', 'raw', 'penalty_of_other_kind'])
    if src == 'raw': member = raw_cond
    else:     # a member penalty of the OTHER kind: the explicit type still decides
        other = 'linear_equality' if tname.endswith('_inequality') else 'linear_inequality'
        member = getattr(mp, other)(raw_cond, k=1)(lambda x: 0.0)
    pn2 = not_(member, ptype=getattr(mp, tname), k=rng.choice([1, 10]))
    for _ in range(5):
        x = [rng.choice([-2.0, -1.0, 0.0, 1.0, 2.0]) for _ in range(dim)]
        cv = x[i2] - b2
        interior = cv < 0 if tname.endswith('_inequality') else cv == 0
        obs.check((pn2(x) > 0) == interior, 'pcomb:not_ penalises exactly the interior of the accepted region', member=['condition x[%d] - %s' % (i2, b2), src], ptype=tname, x=x, observed=pn2(x),
                  interior=interior, explicit_ptype=True)
        zs.add(interior)
    obs.desc = {'members': specs, 'dim': dim, 'explicit_ptype': [tname, src]}
    obs.nontrivial = (True in zs) and (False in zs)


def run_case(cls, idx, rng, obs):
    if cls in ('and', 'or', 'not'):
        return run_combinator(cls, rng, obs)
    if cls == 'and_nonidempotent':
        return run_combinator('and_nonidempotent', rng, obs, hostile=True)
    if cls == 'couplers':
        return run_couplers(rng, obs)
    return run_penalty_comb(rng, obs)
