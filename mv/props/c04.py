"""C04 - best-so-far never worsens; counters, monitors and callbacks are faithful."""
import os, shutil
import numpy as np
from .. import apiprog as A, env

PROPERTY = 'C04'
LEVEL = 'exploration'
TECHNIQUE = 'history + ledger model: random API programs (Step/Solve/Set*/Finalize/monitor swaps) with the harness counting real cost calls, iterations and callbacks and mirroring monitor contents; invariants after every API call'
RULE = ('case = (solver, cost, monitor kinds, termination, program of 3-11 API operations); non-trivial = the program contains >= 1 '
        'reconfiguration or restart after a stop and >= 3 iterations after it; distinct by canonical JSON of the program')
ASSUMPTIONS = ['monitors are initially empty; SetGenerationMonitor is exercised with new=False (history kept)',
               'costs are finite (a cost returning inf is run as a separate class for DE2\'s documented counting shortcut)',
               'in-process map only']
CLASSES = {'programs': {'quick': 3200, 'thorough': 24000}, 'de2_inf_cost': {'quick': 96, 'thorough': 900}}
MIN_EVENTS = {'quick': {'assert:c04': 15000, 'iterations': 1500, 'api_calls': 2000}}
CASE_TIMEOUT = 120


def run_case(cls, idx, rng, obs):
    import warnings
    warnings.simplefilter('ignore')
    np.seterr(all='ignore')
    cfg = A.gen_program(rng, 'c04')
    if cls == 'de2_inf_cost':
        # DE2 without an evaluation monitor infers its evaluation count from the trial energies: a cost that legitimately
        # returns inf on an evaluated point is not counted (recorded finding); kept as its own class so the core class stays finite
        cfg['solver'] = 'de2'; cfg['npop'] = max(cfg.get('npop', 6), 6); cfg['strategy'] = 'Best1Bin'; cfg['CR'] = 0.9; cfg['F'] = 0.8
        cfg['init'] = 'random'; cfg['init_lo'] = [v - 2.0 for v in cfg['x0']]; cfg['init_hi'] = [v + 2.0 for v in cfg['x0']]
        cfg['evalmon_kind'] = 'none'; cfg['stepmon_kind'] = 'plain'; cfg['term'] = ['never']
        cfg['cost'] = ['infregion', [0.0] * cfg['dim'], cfg['x0'][0] - 0.5]
        cfg['ops'] = [['step', 4], ['step', 3]]
    obs.desc = cfg
    tmp = os.path.join(env.OUT, 'c04', '%d-%d' % (idx, os.getpid()))
    os.makedirs(tmp, exist_ok=True)
    try:
        led, st = A.run_program(cfg, obs, 'c04', tmp)
    finally:
        shutil.rmtree(tmp, ignore_errors=True)
    obs.desc = {k: v for k, v in cfg.items() if k != 'ops_done'}
    obs.nontrivial = (st['nreconf'] >= 1 or st['continued_after_stop']) and st['iters_after_reconf'] >= 3
