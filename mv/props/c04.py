"""C04 - best-so-far never worsens; counters, monitors and callbacks are faithful."""
import os, shutil
import numpy as np
from .. import apiprog as A, env

PROPERTY = 'C04'
LEVEL = 'exploration'
TECHNIQUE = 'history + ledger model: random API programs (Step/Solve/Set*/Finalize/monitor swaps) with the harness counting real cost calls, iterations and callbacks and mirroring monitor contents; invariants after every API call'
RULE = ('case = (solver, cost, monitor kinds, termination, program of 3-11 API operations); non-trivial = the program contains >= 1 '
        'reconfiguration or restart after a stop and >= 3 iterations after it; distinct by canonical JSON of the program')
ASSUMPTIONS = ['monitors are initially empty; SetGenerationMonitor is exercised with new=False (history kept)',
               'costs are finite (a cost returning inf is run as a separate class for DE2\'s documented counting shortcut)',
               'in-process map only']
CLASSES = {'programs': {'quick': 6400, 'thorough': 32000}, 'de2_inf_cost': {'quick': 192, 'thorough': 960}, 'solve_through_collapse': {'quick': 320, 'thorough': 2400},
           'wrappers': {'quick': 1600, 'thorough': 16000}, 'cost_faults': {'quick': 960, 'thorough': 9600}}
MIN_EVENTS = {'quick': {'assert:c04': 15000, 'iterations': 1500, 'api_calls': 2000}}
CASE_TIMEOUT = 120


def run_collapse(rng, obs):
    """one Solve(callback=...) whose termination holds dimensional-collapse conditions: Solve applies each collapse and carries on, and the
    bookkeeping must carry on with it - one callback per iteration with the current best, counters equal to the real counts"""
    import mystic.termination as mt
    from mystic.solvers import NelderMeadSimplexSolver, PowellDirectionalSolver, DifferentialEvolutionSolver
    from mystic.monitors import Monitor
    from .. import solverkit as K
    dim = rng.randint(2, 4)
    kind = rng.choice(['nm', 'nm', 'powell', 'de'])
    spec = rng.choice([['flat', [round(rng.uniform(-1, 1), 2) for _ in range(dim)], rng.randint(1, dim - 1)],
                       ['tied', [round(rng.uniform(-1, 1), 2) for _ in range(dim)]]])
    probe = K.CostProbe(K.make_cost(spec))
    s = {'nm': NelderMeadSimplexSolver, 'powell': PowellDirectionalSolver}.get(kind)
    s = s(dim) if s else DifferentialEvolutionSolver(dim, 3 * dim)
    if kind == 'de': s.SetRandomInitialPoints([-2.0] * dim, [2.0] * dim)
    else: s.SetInitialPoints([round(rng.uniform(-2, 2), 2) for _ in range(dim)])
    G = rng.choice([40, 80])
    s.SetEvaluationLimits(G, 10 ** 6)
    em = Monitor(); s.SetEvaluationMonitor(em)
    gens = rng.choice([2, 3, 5]); tol = rng.choice([1e-3, 1e-2, 0.1])
    s.SetTermination(mt.Or(mt.ChangeOverGeneration(1e-10, 40), mt.CollapseAt(None, tolerance=tol, generations=gens), mt.CollapseAs(False, tolerance=tol, generations=gens)))
    obs.desc = {'solver': kind, 'dim': dim, 'cost': spec, 'window': gens, 'tol': tol, 'G': G}
    cb = []
    ncollapse = [0]
    real_collapse = s.Collapse
    def Collapse(*a, **kw):
        r = real_collapse(*a, **kw)
        if r: ncollapse[0] += 1
        return r
    s.Collapse = Collapse
    real_step = s.Step
    iterating = [0]; after = [0]
    def Step(*a, **kw):
        n0, c0, g0 = probe.n, len(cb), s.generations
        msg = real_step(*a, **kw)
        if probe.n > n0 or s.generations > g0 or len(cb) > c0:
            iterating[0] += 1
            if ncollapse[0]: after[0] += 1
            obs.check(len(cb) - c0 == 1, 'c04:callback invoked exactly once per iteration', observed=len(cb) - c0, step=iterating[0], solver=kind, collapses_so_far=ncollapse[0])
            if len(cb) > c0:
                best = [float(v) for v in np.ravel(s.bestSolution)]
                obs.check(cb[-1] == best, 'c04:callback receives the current best', got=cb[-1], best=best, step=iterating[0], solver=kind, collapses_so_far=ncollapse[0])
        if iterating[0] > 20 * (G + 2): raise RuntimeError('no progress')
        return msg
    s.Step = Step
    s.Solve(probe, disp=0, callback=lambda x: cb.append([float(v) for v in np.ravel(x)]))
    obs.check(int(s.evaluations) == probe.n, 'c04:evaluation counter equals the number of real cost calls', observed=int(s.evaluations), expected=probe.n, solver=kind,
              inf_returns=0, evalmon_kind='plain', after='Solve through %d collapse(s)' % ncollapse[0])
    obs.check(len(em) == probe.n, 'c04:evaluation monitor holds exactly the real (x, cost) pairs in call order', observed_len=len(em), expected_len=probe.n, swapped_while_live=False,
              after='Solve through %d collapse(s)' % ncollapse[0], solver=kind)
    obs.check(int(s.generations) == max(0, iterating[0] - 1), 'c04:generation counter equals the number of completed iterations', observed=int(s.generations),
              expected=max(0, iterating[0] - 1), powell=kind == 'powell', after='Solve through %d collapse(s)' % ncollapse[0], solver=kind)
    obs.event('iterations', iterating[0]); obs.event('api_calls', 1); obs.event('collapses_applied', ncollapse[0]); obs.event('iterations_after_a_collapse', after[0])
    obs.nontrivial = ncollapse[0] >= 1 and after[0] >= 3
    obs.notes = {'collapses': ncollapse[0], 'iterations': iterating[0], 'after_collapse': after[0]}


class Fault(Exception):
    pass


def run_faults(rng, obs):
    """a cost that raises once, in the middle of some Step: the exception reaches the caller, the aborted iteration is no iteration, and from the
    next completed Step on the bookkeeping is exact again (the counter counts every call that was made, the raising one included)"""
    from mystic.solvers import NelderMeadSimplexSolver, PowellDirectionalSolver, DifferentialEvolutionSolver, DifferentialEvolutionSolver2
    from mystic.monitors import Monitor
    from mystic.termination import ChangeOverGeneration
    from .. import solverkit as K
    kind = rng.choice(['nm', 'powell', 'de', 'de2'])
    dim = rng.randint(1, 4)
    spec = K.gen_cost(rng, dim, ['sphere', 'illquad', 'rosen', 'abs'])
    raw = K.make_cost(spec)
    probe = K.CostProbe(raw)
    at = rng.randint(1, 60 if kind != 'powell' else 200)
    armed = [True]
    def hook(seq, x):
        if armed[0] and seq + 1 == at:
            armed[0] = False
            raise Fault()
    probe.hooks.append(hook)
    s = {'nm': NelderMeadSimplexSolver, 'powell': PowellDirectionalSolver}.get(kind)
    s = s(dim) if s else (DifferentialEvolutionSolver if kind == 'de' else DifferentialEvolutionSolver2)(dim, 6)
    if kind in ('de', 'de2'): s.SetRandomInitialPoints([-2.0] * dim, [2.0] * dim)
    else: s.SetInitialPoints([round(rng.uniform(-2, 2), 2) for _ in range(dim)])
    s.SetEvaluationLimits(10 ** 6, 10 ** 8); s.SetTermination(ChangeOverGeneration(-1.0, 10 ** 6))
    em, sm = Monitor(), Monitor()
    s.SetEvaluationMonitor(em); s.SetGenerationMonitor(sm)
    s.SetObjective(probe)
    obs.desc = {'solver': kind, 'dim': dim, 'cost': spec, 'fault_at_call': at}
    completed = 0; faulted = False; after = 0
    cb = []
    for i in range(rng.randint(6, 14)):
        n0, c0 = probe.n, len(cb)
        try:
            s.Step(callback=lambda x: cb.append(1))
        except Fault:
            faulted = True
            obs.event('steps_aborted_by_the_cost')
            obs.check(int(s.evaluations) == probe.n or kind == 'de2', 'c04:evaluation counter equals the number of real cost calls', observed=int(s.evaluations), expected=probe.n, solver=kind,
                      inf_returns=0, evalmon_kind='plain', after='a Step aborted by an exception raised in the cost')
            continue
        completed += 1
        if faulted: after += 1
        ctx = dict(solver=kind, after='Step %d (%s the aborted one)' % (i, 'after' if faulted else 'before'), fault_at_call=at)
        if kind != 'de2' or not faulted:      # (DE2 evaluates a whole generation inside one map call and counts it afterwards: an aborted generation is not counted)
            obs.check(int(s.evaluations) == probe.n, 'c04:evaluation counter equals the number of real cost calls', observed=int(s.evaluations), expected=probe.n, inf_returns=0, evalmon_kind='plain', **ctx)
        eh = [K.fnum(e) for e in s.energy_history]
        obs.check(bool(eh) and eh[-1] == K.fnum(s.bestEnergy), 'c04:last entry of the best-energy history is the reported best energy', last=eh[-1:], bestE=K.fnum(s.bestEnergy), **ctx)
        obs.check(all(b <= a for a, b in zip(eh, eh[1:])), 'c04:best-energy history is non-increasing', history=eh[-6:], **ctx)
        obs.check(len(cb) - c0 == 1, 'c04:callback invoked exactly once per iteration', observed=len(cb) - c0, step=i, collapses_so_far=0, **ctx)
        obs.check(int(s.generations) == completed - 1, 'c04:generation counter equals the number of completed iterations', observed=int(s.generations), expected=completed - 1, powell=kind == 'powell', **ctx)
    obs.event('iterations', completed); obs.event('api_calls', completed); obs.event('assert:c04', 5 * completed)
    obs.nontrivial = faulted and after >= 2
    obs.notes = {'completed': completed, 'faulted': faulted, 'after': after}


def run_case(cls, idx, rng, obs):
    import warnings
    warnings.simplefilter('ignore')
    np.seterr(all='ignore')
    if cls == 'solve_through_collapse':
        return run_collapse(rng, obs)
    if cls == 'cost_faults':
        return run_faults(rng, obs)
    if cls == 'wrappers':          # the scipy-style one-liners with itermon= / evalmon= / callback= / args=: the same bookkeeping, reported through the wrapper
        from .c01 import run_wrapper
        return run_wrapper(rng, obs, focus='c04')
    cfg = A.gen_program(rng, 'c04')
    if cls == 'de2_inf_cost':
        # DE2 without an evaluation monitor infers its evaluation count from the trial energies: a cost that legitimately
        # returns inf on an evaluated point is not counted (recorded finding); kept as its own class so the core class stays finite
        cfg['solver'] = 'de2'; cfg['npop'] = max(cfg.get('npop', 6), 6); cfg['strategy'] = 'Best1Bin'; cfg['CR'] = 0.9; cfg['F'] = 0.8
        cfg['init'] = 'random'; cfg['init_lo'] = [v - 2.0 for v in cfg['x0']]; cfg['init_hi'] = [v + 2.0 for v in cfg['x0']]
        cfg['evalmon_kind'] = 'none'; cfg['stepmon_kind'] = 'plain'; cfg['term'] = ['never']
        cfg['cost'] = ['infregion', [0.0] * cfg['dim'], cfg['x0'][0] - 0.5]
        cfg['ops'] = [['step', 4], ['step', 3]]
    obs.desc = cfg
    tmp = os.path.join(env.OUT, 'c04', '%d-%d' % (idx, os.getpid()))
    os.makedirs(tmp, exist_ok=True)
    try:
        led, st = A.run_program(cfg, obs, 'c04', tmp)
    finally:
        shutil.rmtree(tmp, ignore_errors=True)
    obs.desc = {k: v for k, v in cfg.items() if k != 'ops_done'}
    obs.nontrivial = (st['nreconf'] >= 1 or st['continued_after_stop']) and st['iters_after_reconf'] >= 3
