"""C07 - results depend only on configuration and seed, not on call order or schedule.

(a) the same Set* calls in seeded permutations of their order give bit-identical
    trajectories; (b) DE2 under every map of the zoo (serial, reversed, shuffled, threads
    with jittered sleeps, forked processes) - results are consumed by index; (c) ensembles
    of Nelder-Mead / Powell members under the maps and in step-wise vs run-to-completion
    mode."""
import os, sys, time, random, pickle, threading
import numpy as np
from .. import solverkit as K

PROPERTY = 'C07'
LEVEL = 'exploration'
TECHNIQUE = 'differential monitoring: bit-exact trajectory comparison across permutations of configuration calls and across a zoo of maps with stressed/jittered completion orders (observed completion orders are reported)'
RULE = ('case = (configuration, permutation of its Set* calls) or (DE2 / ensemble run, map kind); non-trivial = the permutation differs from the canonical '
        'order in >= 3 positions, or the map\'s observed completion order differed from index order at least once; distinct by canonical JSON')
ASSUMPTIONS = ['the seed is set once before configuring and once more before stepping', 'ensemble members are Nelder-Mead / Powell (no random draws while running)',
               'maps return results by index (the documented map contract); what varies is evaluation and completion order']
CLASSES = {
    'permutations': {'quick': 240, 'thorough': 2400},
    'de2_maps': {'quick': 120, 'thorough': 1000},
    'ensemble_maps': {'quick': 72, 'thorough': 1200},
}
MIN_EVENTS = {'quick': {'assert:perm': 300, 'assert:map': 150, 'nonidentity_completion_orders': 30}}
CASE_TIMEOUT = 300


# ------------------------------------------------------------------ map zoo
class MapZoo(object):
    def __init__(self, seed):
        self.rng = random.Random(seed)       # never the global stream
        self.orders = []                     # observed completion orders
        self.lock = threading.Lock()

    def serial(self, f, *seqs, **kw):
        items = list(zip(*seqs))
        self.orders.append(list(range(len(items))))
        return [f(*a) for a in items]

    def reversed(self, f, *seqs, **kw):
        items = list(zip(*seqs)); out = [None] * len(items)
        order = list(range(len(items)))[::-1]
        for i in order: out[i] = f(*items[i])
        self.orders.append(order)
        return out

    def shuffled(self, f, *seqs, **kw):
        items = list(zip(*seqs)); out = [None] * len(items)
        order = list(range(len(items))); self.rng.shuffle(order)
        for i in order: out[i] = f(*items[i])
        self.orders.append(order)
        return out

    def threads(self, f, *seqs, **kw):
        from concurrent.futures import ThreadPoolExecutor
        items = list(zip(*seqs)); out = [None] * len(items)
        delays = [self.rng.uniform(0, 0.004) for _ in items]
        done = []
        def work(i):
            time.sleep(delays[i])              # jitter: completion order differs from submission order
            r = f(*items[i])
            with self.lock: done.append(i)
            return i, r
        with ThreadPoolExecutor(max_workers=min(8, max(1, len(items)))) as ex:
            for i, r in ex.map(work, range(len(items))):
                out[i] = r
        self.orders.append(done)
        return out

    def pickling(self, f, *seqs, **kw):
        """serial map with the data flow of a process-based / distributed map: the function, every work item and every result cross a
        dill boundary (copy semantics), evaluated last-to-first"""
        import dill
        items = list(zip(*seqs)); out = [None] * len(items)
        g = dill.loads(dill.dumps(f))
        order = list(range(len(items)))[::-1]
        for i in order:
            out[i] = dill.loads(dill.dumps(g(*dill.loads(dill.dumps(items[i])))))
        self.orders.append(order)
        return out

    def forked(self, f, *seqs, **kw):
        """fork-based process map: each child evaluates a strided share and sends (index, result) pairs back through a pipe"""
        items = list(zip(*seqs)); n = len(items); out = [None] * n
        nproc = min(4, max(1, n))
        pipes = []
        for p in range(nproc):
            r, w = os.pipe()
            pid = os.fork()
            if pid == 0:
                try:
                    os.close(r)
                    res = [(i, f(*items[i])) for i in range(p, n, nproc)][::-1]
                    import dill
                    with os.fdopen(w, 'wb') as fh: dill.dump(res, fh)
                finally:
                    os._exit(0)
            os.close(w); pipes.append((pid, r))
        order = []
        for pid, r in pipes[::-1]:             # collect in a different order than spawned
            import dill
            with os.fdopen(r, 'rb') as fh: res = dill.load(fh)
            os.waitpid(pid, 0)
            for i, v in res:
                out[i] = v; order.append(i)
        self.orders.append(order)
        return out


def traj_state(s):
    sn = K.snap(s)
    return {k: sn[k] for k in ('pop', 'ene', 'best', 'bestE', 'gens', 'evals')}


# ------------------------------------------------------------------ (a) permutations
def run_perm(rng, obs):
    from mystic.monitors import Monitor
    from mystic.termination import ChangeOverGeneration, VTR
    cfg = K.gen_solver_cfg(rng, dims=(1, 4))
    dim = cfg['dim']
    cfg['cost'] = K.gen_cost(rng, dim, ['sphere', 'illquad', 'rosen', 'abs', 'step'])
    box = K.gen_box(rng, dim, cfg['x0'], shape='finite')
    tight = rng.choice([None, None, None, True])
    cons = K.gen_constraint(rng, dim, box) if rng.random() < 0.6 else None
    pen = K.gen_penalty(rng, dim) if rng.random() < 0.6 else None
    steps = rng.randint(3, 8)
    raw = K.make_cost(cfg['cost'])
    use_random_init = cfg['solver'] in ('de', 'de2')
    # the initial population drawn from a user-supplied mystic Distribution (built when the Set* call is made, i.e. after seeding)
    sampled = rng.choice([None, None, 'normal', 'uniform', 'default']) if use_random_init else None
    def sampled_init(s):
        from mystic.math import Distribution
        mid = [0.5 * (l + h) for l, h in zip(box['lo'], box['hi'])]
        if sampled == 'default': return s.SetSampledInitialPoints()
        d = Distribution('numpy.random.normal', mid[0], 1.0) if sampled == 'normal' else Distribution('numpy.random.uniform', min(box['lo']), max(box['hi']))
        return s.SetSampledInitialPoints(d)
    names = ['init', 'ranges', 'constraints', 'penalty', 'limits', 'termination', 'stepmon', 'evalmon', 'objective']
    def configure(order, probe):
        s = K.new_solver(cfg)
        acts = {
            'init': lambda: (sampled_init(s) if sampled else s.SetRandomInitialPoints(list(box['lo']), list(box['hi'])) if use_random_init else s.SetInitialPoints(list(cfg['x0']))),
            'ranges': lambda: s.SetStrictRanges(list(box['lo']), list(box['hi']), **({} if tight is None else {'tight': tight})),
            'constraints': lambda: s.SetConstraints(K.make_constraint(cons) if cons else None),
            'penalty': lambda: s.SetPenalty(K.make_penalty(pen) if pen else None),
            'limits': lambda: s.SetEvaluationLimits(10 ** 6, 10 ** 8),
            'termination': lambda: s.SetTermination(ChangeOverGeneration(-1.0, 10 ** 6)),
            'stepmon': lambda: s.SetGenerationMonitor(Monitor()),
            'evalmon': lambda: s.SetEvaluationMonitor(Monitor()),
            'objective': lambda: s.SetObjective(probe),
        }
        for n in order: acts[n]()
        return s
    # a second block of Set* calls between two Steps of the running solver (narrower ranges, another penalty, a fresh evaluation monitor,
    # new limits): their order must not matter either
    mid = rng.random() < 0.5
    mid_names = ['ranges2', 'penalty2', 'evalmon2', 'limits2']
    pen2 = K.gen_penalty(rng, dim)
    lo2 = [l + 0.25 * (h - l) for l, h in zip(box['lo'], box['hi'])]; hi2 = [h - 0.25 * (h - l) for l, h in zip(box['lo'], box['hi'])]
    more = rng.randint(2, 5)
    def run(order, mid_order=None):
        random.seed(obs.seed); np.random.seed(obs.seed % (2 ** 32))
        probe = K.CostProbe(raw)
        s = configure(order, probe)
        random.seed(obs.seed + 1); np.random.seed((obs.seed + 1) % (2 ** 32))
        kw = K.step_kwargs(cfg)
        out = []
        for _ in range(steps):
            s.Step(**kw); out.append(traj_state(s))
        if mid_order:
            acts2 = {'ranges2': lambda: s.SetStrictRanges(list(lo2), list(hi2)), 'penalty2': lambda: s.SetPenalty(K.make_penalty(pen2)),
                     'evalmon2': lambda: s.SetEvaluationMonitor(Monitor()), 'limits2': lambda: s.SetEvaluationLimits(10 ** 6 + 1, 10 ** 8 + 1)}
            for n in mid_order: acts2[n]()
            for _ in range(more):
                s.Step(**kw); out.append(traj_state(s))
        return out, [c[0] for c in probe.calls]
    base, base_calls = run(names, mid_names if mid else None)
    obs.desc = dict(cfg, box=[box['lo'], box['hi']], tight=tight, cons=cons, pen=pen, steps=steps, sampled_init=sampled)
    if sampled: obs.event('sampled_from_a_distribution')
    nperm = 6
    far = False
    for _ in range(nperm):
        order = list(names); rng.shuffle(order)
        moved = sum(1 for a, b in zip(order, names) if a != b)
        mid_order = None
        if mid:
            mid_order = list(mid_names); rng.shuffle(mid_order)
            if rng.random() < 0.5: order = list(names)          # vary only the mid-run block
        got, calls = run(order, mid_order)
        if mid: obs.event('midrun_permutations')
        same = got == base and calls == base_calls
        first = next((i for i, (a, b) in enumerate(zip(got, base)) if a != b), None)
        obs.check(same, 'perm:same trajectory whatever the order of the Set* calls', order=order, midrun_order=mid_order, first_differing_step=first, solver=cfg['solver'], tight=tight,
                  ranges_before_init=order.index('ranges') < order.index('init'), random_init=use_random_init,
                  field=None if first is None else next((k for k in got[first] if got[first][k] != base[first][k]), None))
        if moved >= 3: far = True
    obs.nontrivial = far
    obs.notes = {'permutations': nperm, 'steps': steps}


# ------------------------------------------------------------------ (b) DE2 under maps
def run_de2_maps(rng, obs):
    from mystic.solvers import DifferentialEvolutionSolver2
    from mystic.termination import ChangeOverGeneration
    dim = rng.randint(1, 4)
    NP = rng.choice([6, 8, 12])
    strat = rng.choice(['Best1Bin', 'Best1Exp', 'Rand1Bin', 'RandToBest1Exp', 'Best2Bin'])
    spec = K.gen_cost(rng, dim, ['sphere', 'illquad', 'rosen', 'abs', 'step'])
    raw = K.make_cost(spec)
    box = K.gen_box(rng, dim, None, shape='finite') if rng.random() < 0.5 else None
    cons = K.gen_constraint(rng, dim, box) if rng.random() < 0.4 else None
    gens = rng.randint(3, 7)
    sampled = rng.random() < 0.25         # initial population drawn from a mystic Distribution built after seeding
    evalmon = rng.random() < 0.5          # with an evaluation monitor DE2 counts through the monitor where it can, else from the map results
    obs.desc = {'solver': 'de2', 'dim': dim, 'NP': NP, 'strategy': strat, 'cost': spec, 'box': box, 'cons': cons, 'generations': gens, 'evalmon': evalmon, 'sampled_init': sampled}
    if sampled: obs.event('sampled_from_a_distribution')
    import mystic.strategy as ST
    mutating = rng.random() < 0.2         # a cost that edits the vector it is handed: the solver's own trial vectors are not its to edit, under any map
    def cost(x):                    # plain module-level-free function: must work in forked children and threads
        y = raw([float(v) for v in x])
        if mutating:
            try: x[0] = round(float(x[0]), 1)
            except TypeError: pass
        return y
    obs.desc['cost_edits_its_argument'] = mutating
    if mutating: obs.event('cost_edits_its_argument')
    def run(mapname, zoo, swap_at=None):
        random.seed(obs.seed); np.random.seed(obs.seed % (2 ** 32))
        s = DifferentialEvolutionSolver2(dim, NP)
        if sampled:
            from mystic.math import Distribution
            s.SetSampledInitialPoints(Distribution('numpy.random.normal', 0.0, 2.0))
        else:
            s.SetRandomInitialPoints([-3.0] * dim, [3.0] * dim)
        if box: s.SetStrictRanges(list(box['lo']), list(box['hi']))
        if cons: s.SetConstraints(K.make_constraint(cons))
        s.SetEvaluationLimits(10 ** 6, 10 ** 8); s.SetTermination(ChangeOverGeneration(-1.0, 10 ** 6))
        first = 'serial' if swap_at is not None else mapname
        if first != 'default': s.SetMapper(getattr(zoo, first))
        if evalmon:
            from mystic.monitors import Monitor
            s.SetEvaluationMonitor(Monitor())
        s.SetObjective(cost)
        out = []
        for g_ in range(gens + 1):
            if swap_at is not None and g_ == swap_at:
                s.SetMapper(getattr(zoo, mapname) if mapname != 'default' else zoo.serial)      # the map exchanged between two generations
            s.Step(strategy=getattr(ST, strat), CrossProbability=0.9, ScalingFactor=0.8)
            st = traj_state(s)
            out.append(st)
        return out
    zoo0 = MapZoo(obs.seed)
    base = run('serial', zoo0)
    nonid = 0
    for name in ('default', 'reversed', 'shuffled', 'threads', 'forked'):
        zoo = MapZoo(obs.seed + 7)
        got = run(name, zoo)
        # evaluations are counted differently when the default in-process map is used with a monitor; compare everything but compare
        # the counter only among the explicitly supplied maps
        def strip(tr, drop):
            return [{k: v for k, v in st.items() if k not in drop} for st in tr]
        drop = ()       # (the costs of the zoo are finite, so every way DE2 has of counting must give the number of real evaluations)
        first = next((i for i, (a, b) in enumerate(zip(strip(got, drop), strip(base, drop))) if a != b), None)
        obs.check(first is None, 'map:DE2 trajectory is independent of the order/parallelism of the supplied map', map=name, first_differing_generation=first,
                  strategy=strat, field=None if first is None else next((k for k in got[first] if got[first][k] != base[first][k]), None))
        n = sum(1 for o in zoo.orders if o != sorted(o))
        nonid += n
        obs.event('nonidentity_completion_orders', n)
        obs.event('map_calls', len(zoo.orders))
        if name in ('default', 'reversed', 'threads') and gens >= 3:
            k = rng.randint(2, gens)
            zoo2 = MapZoo(obs.seed + 13)
            got2 = run(name, zoo2, swap_at=k)
            first2 = next((i for i, (a, b) in enumerate(zip(got2, base)) if a != b), None)
            obs.check(first2 is None, 'map:DE2 trajectory is independent of the order/parallelism of the supplied map', map=name, exchanged_at_generation=k,
                      first_differing_generation=first2, strategy=strat, box=bool(box), field=None if first2 is None else next((q for q in got2[first2] if got2[first2][q] != base[first2][q]), None))
            obs.event('map_exchanged_midrun')
    obs.nontrivial = nonid > 0
    obs.notes = {'nonidentity_completion_orders': nonid}


# ------------------------------------------------------------------ (c) ensembles
def run_ensemble_maps(rng, obs):
    from mystic.solvers import LatticeSolver, BuckshotSolver, NelderMeadSimplexSolver, PowellDirectionalSolver
    from mystic.termination import NormalizedChangeOverGeneration as NCOG
    dim = rng.randint(1, 3)
    which = rng.choice(['lattice', 'buckshot'])
    nested = rng.choice(['nm', 'powell'])
    # flat-bottomed / piecewise-constant objectives make members tie exactly (at different iterations): the reduction to the best
    # member must then not depend on arrival order or on when the reduction is made
    spec = K.gen_cost(rng, dim, ['sphere', 'illquad', 'rosen', 'abs', 'plateau', 'plateau', 'step'])
    raw = K.make_cost(spec)
    box = K.gen_box(rng, dim, None, shape='finite')
    if spec[0] == 'plateau' and rng.random() < 0.7:      # a wide box around the plateau so that several members reach the bottom
        box = {'lo': [round(c - 6.0, 2) for c in spec[1]], 'hi': [round(c + 6.0, 2) for c in spec[1]], 'shape': 'finite'}
    npts = rng.choice([2, 3, 4, 6])
    maxiter = rng.choice([3, 8, 20, 60, 200])
    if nested == 'powell' and maxiter > 60: maxiter = 60          # (a Powell iteration is a whole sweep of line searches: 200 of them times 14 schedules is minutes of CPU)          # (long enough, sometimes, for members to stop on their own at different times while others go on)
    obs.desc = {'ensemble': which, 'nested': nested, 'dim': dim, 'cost': spec, 'box': box, 'npts': npts, 'maxiter': maxiter}
    mons = rng.choice(['none', 'none', 'both', 'both', 'evalmon', 'stepmon'])   # copy-semantics maps splice member monitors back: which monitors exist matters
    restart = rng.random() < 0.4                                                # a second Solve with raised limits on the same ensemble
    instance = rng.choice([None, None, None, 'plain', 'tight'])
    if instance == 'tight' and maxiter > 20: maxiter = 20; obs.desc['maxiter'] = 20      # (tight ranges solve a symbolic system at every evaluation)
    if instance: restart = False          # (limits of a configured instance are its own: the restart protocol of this case raises the ensemble's)
    if instance == 'tight' and spec[0] not in ('plateau', 'step'):
        # an optimum on or beyond a face of the box, so that the treatment of the ranges matters
        j = rng.randrange(dim); box = dict(box, lo=list(box['lo']), hi=list(box['hi']))
        c = spec[1][j] if len(spec) > 1 and isinstance(spec[1], list) and len(spec[1]) > j and isinstance(spec[1][j], (int, float)) else 1.0
        box['hi'][j] = c - rng.choice([0.0, 0.5]); box['lo'][j] = box['hi'][j] - 4.0
    # the members' stop rule: history-based (NCOG) or, for simplex members, population-based (CRT looks at the vertices and their stored energies)
    # ... or a target (VTR) that some members already meet at their starting point while others still have to work for it
    term_kind = rng.choice(['ncog', 'ncog', 'crt', 'vtr']) if nested == 'nm' else rng.choice(['ncog', 'ncog', 'vtr'])
    ctol = rng.choice([1e-4, 1e-2]); vtol = rng.choice([0.5, 3.0, 10.0])
    def mkterm():
        from mystic.termination import CandidateRelativeTolerance as CRT, VTR
        return CRT(ctol, ctol) if term_kind == 'crt' else (VTR(vtol) if term_kind == 'vtr' else NCOG(1e-4, 2))
    monk = rng.choice([{}, {}, {'k': -1}, {'k': 2.5}])          # cost multiplier of the ensemble's monitors (k = -1: the documented way to log a maximisation)
    dist = rng.choice([None, None, 'normal', 'uniform'])      # members' starting points randomised by a user-supplied Distribution (built after seeding)
    obs.desc.update(monitors=mons, restart=restart, nested_instance=instance, box=box, dist=dist, termination=term_kind, monitor_k=monk.get('k'))
    if dist: obs.event('sampled_from_a_distribution')
    def cost(x):
        return raw([float(v) for v in x])
    def run(mapname, zoo, step=False):
        from mystic.monitors import Monitor
        random.seed(obs.seed); np.random.seed(obs.seed % (2 ** 32))
        s = LatticeSolver(dim, nbins=npts) if which == 'lattice' else BuckshotSolver(dim, npts=npts)
        cls_ = NelderMeadSimplexSolver if nested == 'nm' else PowellDirectionalSolver
        if instance:
            # the nested solver handed over as a CONFIGURED INSTANCE: its own settings (here: how it treats the ranges) are its business,
            # in every mode and under every map alike
            n_ = cls_(dim)
            n_.SetStrictRanges(list(box['lo']), list(box['hi']), **({} if instance == 'plain' else {'tight': True}))
            n_.SetEvaluationLimits(maxiter, 4000)
            n_.SetTermination(mkterm())
            n_.SetObjective(cost)
            s.SetNestedSolver(n_)
        else:
            s.SetNestedSolver(cls_)
        s.SetStrictRanges(list(box['lo']), list(box['hi']))
        s.SetEvaluationLimits(maxiter, 4000)
        if dist:
            from mystic.math import Distribution
            w = max(h - l for l, h in zip(box['lo'], box['hi']))
            if which == 'lattice':     # lattice: noise added to the cell centres
                s.SetDistribution(Distribution('numpy.random.normal', 0.0, 0.05 * w) if dist == 'normal' else Distribution('numpy.random.uniform', -0.1 * w, 0.1 * w))
            else:                      # buckshot: the points themselves are drawn from it (redrawn until inside the ranges)
                s.SetDistribution(Distribution('numpy.random.normal', 0.5 * (min(box['lo']) + max(box['hi'])), w) if dist == 'normal' else
                                  Distribution('numpy.random.uniform', min(box['lo']) - 0.5 * w, max(box['hi']) + 0.5 * w))
        if mapname != 'default': s.SetMapper(getattr(zoo, mapname))
        if mons in ('both', 'stepmon'): s.SetGenerationMonitor(Monitor(**monk))
        if mons in ('both', 'evalmon'): s.SetEvaluationMonitor(Monitor(**monk))
        s.SetTermination(mkterm())
        if step: s.Solve(cost, disp=0, step=True)
        else: s.Solve(cost, disp=0)
        first = None
        if restart:
            first = {'bestE': K.fnum(s.bestEnergy), 'all_evals': list(map(int, s._all_evals)), 'all_iters': list(map(int, s._all_iters))}
            s.SetEvaluationLimits(maxiter + 5, 5000)
            if step: s.Solve(disp=0, step=True)
            else: s.Solve(disp=0)
        out = {'best': [float(v) for v in s.bestSolution], 'bestE': K.fnum(s.bestEnergy),
               'all_bestE': [K.fnum(e) for e in s._all_bestEnergy], 'all_best': [[float(v) for v in b] for b in s._all_bestSolution],
               'all_evals': list(map(int, s._all_evals)), 'all_iters': list(map(int, s._all_iters)), 'total_evals': int(s._total_evals),
               'gens': int(s.generations), 'evals': int(s.evaluations), 'first': first,
               'ehist': [K.fnum(e) for e in s.energy_history] if mons in ('both', 'stepmon') else None,
               'nevalmon': len(s._evalmon) if mons in ('both', 'evalmon') else None,
               'member_hist': [[K.fnum(e) for e in m.energy_history] for m in s._allSolvers]}
        return out
    zoo0 = MapZoo(obs.seed)
    base = run('serial', zoo0)
    base_step = run('serial', MapZoo(obs.seed), step=True)
    nonid = 0
    for name in ('default', 'reversed', 'shuffled', 'threads', 'pickling', 'forked'):
        for step in (False, True):
            zoo = MapZoo(obs.seed + 11)
            got = run(name, zoo, step=step)
            ref = base_step if step else base
            obs.check(got == ref, 'map:ensemble result is independent of the order/parallelism of the supplied map', map=name, ensemble=which, nested=nested,
                      stepwise=step, monitors=mons, restart=restart,
                      field=next((k for k in got if got[k] != ref[k]), None), observed=str(got)[:300], expected=str(ref)[:300])
            n = sum(1 for o in zoo.orders if o != sorted(o)); nonid += n
            obs.event('nonidentity_completion_orders', n)
            obs.event('copy_semantics_map_runs', 1 if name in ('pickling', 'forked') else 0)
    stepw = base_step
    keys = ('best', 'bestE', 'all_bestE', 'all_best', 'all_evals', 'all_iters', 'total_evals', 'gens', 'member_hist')
    obs.check(all(stepw[k] == base[k] for k in keys), 'map:ensemble results are the same in step-wise and run-to-completion mode', ensemble=which, nested=nested,
              field=next((k for k in keys if stepw[k] != base[k]), None), stepwise=str({k: stepw[k] for k in keys})[:400],
              complete=str({k: base[k] for k in keys})[:400], evals=[stepw['all_evals'], base['all_evals']], iters=[stepw['all_iters'], base['all_iters']])
    obs.event('stepwise_vs_complete_counters_equal', 1 if (stepw['all_evals'] == base['all_evals'] and stepw['all_iters'] == base['all_iters']) else 0)
    obs.nontrivial = nonid > 0
    obs.notes = {'nonidentity_completion_orders': nonid, 'members': len(base['all_bestE'])}


def run_case(cls, idx, rng, obs):
    import warnings
    warnings.simplefilter('ignore')
    np.seterr(all='ignore')
    return {'permutations': run_perm, 'de2_maps': run_de2_maps, 'ensemble_maps': run_ensemble_maps}[cls](rng, obs)
