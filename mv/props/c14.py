"""C14 - compiled condition and penalty functions measure exactly the stated violation."""
import math
import numpy as np
from ..refs import ctext as T
from .c13 import gen_names, gen_expr, gen_x

PROPERTY = 'C14'
LEVEL = 'exploration'
TECHNIQUE = 'reference-model monitor: condition values and penalties recomputed from the constraint text by an independent interpreter and the documented penalty formulas'
RULE = ('case = (constraint text of 1-4 lines over an expression zoo, comparators, variable naming, extra locals, penalty type, k, h, evaluation point incl. boundary points); '
        'non-trivial = at least one line is violated and at least one is satisfied at the point, or the point lies on a boundary; distinct by canonical JSON')
ASSUMPTIONS = ['strict comparators are shifted by tolerance(rhs) as documented; points inside that band are not judged for the sign/satisfaction equivalence',
               'penalty values compared with rel 1e-9', 'the constraint-drives-penalty-to-zero clause uses isolated-form texts whose left-hand variables do not feed one another']
CLASSES = {
    'conditions': {'quick': 36000, 'thorough': 360000},
    'interleaved': {'quick': 6000, 'thorough': 60000},
    'penalty': {'quick': 24000, 'thorough': 240000},
    'constraint_zeroes_penalty': {'quick': 9600, 'thorough': 96000},
}
MIN_EVENTS = {'quick': {'assert:cond': 6000, 'assert:pen': 3000, 'assert:cross': 700, 'interleaved_sets_judged': 2000, 'with_user_locals': 1000}}
CASE_TIMEOUT = 120
CMPS = ['=', '==', '<=', '>=', '<', '>']


def close(a, b, rel=1e-9):
    a, b = float(a), float(b)
    return a == b or abs(a - b) <= rel * max(abs(a), abs(b)) + 1e-300


def gen_text(rng, n, names, isolated=False, nlines=None, allow_ne=False):
    nlines = nlines or rng.randint(1, 4)
    specs = []
    lhs_idx = rng.sample(range(n), min(nlines, n)) if isolated else None
    for k in range(nlines if not isolated else len(lhs_idx)):
        cmp = rng.choice(CMPS + (['!='] if allow_ne else []))
        if isolated:
            i = lhs_idx[k]
            pool = [names[j] for j in range(n) if j not in lhs_idx]
            lhs = names[i]
            rhs = gen_expr(rng, pool + [names[i]], names[i], rng.randint(0, 2)) if pool else repr(rng.choice([0.0, 1.5, -2.0]))
        else:
            lhs = gen_expr(rng, names, None, rng.randint(0, 2))
            rhs = gen_expr(rng, names, None, rng.randint(0, 2))
        specs.append((lhs, cmp, rhs))
    return '\n'.join('%s %s %s' % s for s in specs), specs


def expected_condition(lhs, cmp, rhs, tol=1e-15, rel=1e-15):
    """documented orientation: inequality holds iff value <= 0, equality iff value == 0"""
    if cmp in ('=', '=='): return 'eq', lhs - rhs
    if cmp == '<=': return 'ineq', lhs - rhs
    if cmp == '>=': return 'ineq', -(lhs - rhs)
    if cmp == '<': return 'ineq', lhs - (rhs - T.tolerance(rhs, tol, rel))
    if cmp == '>': return 'ineq', -(lhs - (rhs + T.tolerance(rhs, tol, rel)))
    if cmp == '!=': return 'eq', float((lhs - rhs) == 0)
    raise ValueError(cmp)


def evaluate(specs, names, x, extra=None):
    env = T.env_of(names, x)
    out = []
    for lhs, cmp, rhs in specs:
        l, r = T.value(lhs, env, extra), T.value(rhs, env, extra)
        if not (math.isfinite(l) and math.isfinite(r)): raise ValueError('non-finite')
        out.append((l, cmp, r))
    return out


TOLS = [(1e-6, 0.0), (1e-9, 1e-9), (0.5, 0.0), (1e-3, 1e-3), (1e-15, 1e-15)]


def gen_cond_case(rng, p_locals=0.2, p_tol=0.15):
    n = rng.choice([1, 2, 3, 5, 8, 12])
    variables, names = gen_names(rng, n)
    extra = {'c0': rng.choice([2.0, -1.5, 40.0, 0.25])} if rng.random() < p_locals else None
    tol, rel = 1e-15, 1e-15
    if rng.random() < p_tol:
        tol, rel = rng.choice(TOLS)
        given = rng.choice(['both', 'both', 'tol', 'rel'])       # one of the two given alone: the other keeps its documented default of 1e-15
        if given == 'tol': rel = 1e-15; extra = dict(extra or {}, tol=tol)
        elif given == 'rel': tol = 1e-15; extra = dict(extra or {}, rel=rel)
        else: extra = dict(extra or {}, tol=tol, rel=rel)
    text, specs = gen_text(rng, n, names, allow_ne=True)
    if extra and 'c0' in extra:       # an extra local used on some right-hand side
        lhs, cmp, rhs = specs[0]
        specs[0] = (lhs, cmp, '(%s) + c0' % rhs)
        text = '\n'.join('%s %s %s' % s for s in specs)
    x = gen_x(rng, n)
    try:
        vals = evaluate(specs, names, x, extra)
    except (ZeroDivisionError, OverflowError, ValueError):
        return None
    return {'text': text, 'specs': specs, 'n': n, 'variables': variables, 'names': names, 'x': x, 'locals': extra, 'tol': tol, 'rel': rel, 'vals': vals}


def judge_conditions(obs, conds, cs, tag=''):
    ineqf, eqf = conds
    text, x, vals, tol, rel = cs['text'], cs['x'], cs['vals'], cs['tol'], cs['rel']
    ctx = {'context': tag, 'locals': cs['locals']} if tag else {'locals': cs['locals']}
    want = [expected_condition(l, c, r, tol, rel) for (l, c, r) in vals]
    wi = [v for k, v in want if k == 'ineq']; we = [v for k, v in want if k == 'eq']
    obs.check(len(ineqf) == len(wi) and len(eqf) == len(we), 'cond:lines are classified into inequality and equality conditions', text=text,
              observed=[len(ineqf), len(eqf)], expected=[len(wi), len(we)])
    if len(ineqf) != len(wi) or len(eqf) != len(we): return None
    sat_flags = []
    for fs, ws, kind in ((ineqf, wi, 'ineq'), (eqf, we, 'eq')):
        for f, w in zip(fs, ws):
            got = float(f(list(x)))
            obs.check(close(got, w, 1e-9) or abs(got - w) <= 1e-9 * (1 + abs(w)), 'cond:condition value is lhs-rhs in the documented orientation', text=text,
                      condition=f.__doc__, x=x, observed=got, expected=w, kind=kind, **ctx)
    # sign <=> satisfaction of each line (outside the strictness band)
    k_i = k_e = 0
    for (l, c, r) in vals:
        kind, w = expected_condition(l, c, r, tol, rel)
        f = (ineqf[k_i] if kind == 'ineq' else eqf[k_e])
        if kind == 'ineq': k_i += 1
        else: k_e += 1
        got = float(f(list(x)))
        holds = T.holds(l, c, r)
        sat_flags.append(holds)
        band = c in ('<', '>') and abs(l - r) <= 4 * T.tolerance(r, tol, rel)
        if band:
            obs.event('strictness_band_not_judged'); continue
        if abs(l - r) <= 1e-9 * max(1.0, abs(l), abs(r)) and l != r:
            obs.event('rounding_band_not_judged'); continue
        says = (got <= 0) if kind == 'ineq' else (got == 0)
        obs.check(says == holds, 'cond:the line holds iff its condition is <= 0 (inequality) / == 0 (equality)', text=text, line=[l, c, r], value=got, holds=holds, **ctx)
    return sat_flags


def run_conditions(rng, obs):
    from mystic.symbolic import generate_conditions
    cs = gen_cond_case(rng)
    if cs is None:
        obs.skip('text undefined at x'); return
    obs.desc = {'text': cs['text'], 'variables': cs['variables'] if isinstance(cs['variables'], str) else cs['names'], 'n': cs['n'], 'x': cs['x'], 'locals': cs['locals']}
    conds = generate_conditions(cs['text'], variables=cs['variables'], nvars=cs['n'], locals=dict(cs['locals']) if cs['locals'] else None)
    sat_flags = judge_conditions(obs, conds, cs)
    if sat_flags is None: return
    if cs['locals']: obs.event('with_user_locals')
    obs.nontrivial = (True in sat_flags and False in sat_flags) or any(l == r for l, c, r in cs['vals'])
    obs.notes = {'lines_satisfied': sat_flags}


def run_interleaved(rng, obs):
    """several condition sets (and their penalties) are generated first - the same constant name with different values, different
    strictness tolerances, plain ones - then all are evaluated: each must keep measuring ITS text with ITS locals"""
    from mystic.symbolic import generate_conditions, generate_penalty, generate_solvers
    k = rng.randint(2, 5)
    css = []
    for _ in range(3 * k):
        cs = gen_cond_case(rng, p_locals=0.6, p_tol=0.5)
        if cs is not None: css.append(cs)
        if len(css) == k: break
    if len(css) < 2:
        obs.skip('too few defined texts'); return
    built = [generate_conditions(cs['text'], variables=cs['variables'], nvars=cs['n'], locals=dict(cs['locals']) if cs['locals'] else None) for cs in css]
    pens = [generate_penalty(b) if not any('!=' == c for _, c, _ in cs['specs']) else None for b, cs in zip(built, css)]
    extra = rng.random() < 0.5
    if extra:
        generate_conditions('x0 < c0', nvars=1, locals={'c0': 123.0, 'tol': 0.25, 'rel': 0.0})
        generate_solvers('x0 = c0', nvars=1, locals={'c0': -77.0})
        generate_conditions('x0 <= 1.0', nvars=1)
    order = list(range(len(css))); rng.shuffle(order)
    obs.desc = {'texts': [cs['text'] for cs in css], 'locals': [cs['locals'] for cs in css], 'x': [cs['x'] for cs in css], 'order': order, 'extra_builds': extra}
    mixed = False
    for j in order:
        cs = css[j]
        tag = 'built %d generator call(s) later' % (len(css) - 1 - j + (3 if extra else 0))
        flags = judge_conditions(obs, built[j], cs, tag=tag)
        obs.event('interleaved_sets_judged')
        if flags is None: continue
        if True in flags and False in flags: mixed = True
        if pens[j] is not None:      # default quadratic penalty, k=100: documented per-line sum
            total = 0.0
            for (l, c, r) in cs['vals']:
                kind, w = expected_condition(l, c, r, cs['tol'], cs['rel'])
                total += line_term('quadratic', kind, w, 100)
            got = float(pens[j](list(cs['x'])))
            same = (got == total) if not math.isfinite(total) else (close(got, total, 1e-9) or abs(got - total) <= 1e-9 * (1 + abs(total)))
            obs.check(same, 'pen:penalty equals the documented sum of per-line terms', text=cs['text'], x=cs['x'], observed=got, expected=total, locals=cs['locals'], context=tag)
    shared = sum(1 for cs in css if cs['locals']) >= 2
    obs.nontrivial = mixed and shared
    obs.notes = {'sets': len(css), 'with_locals': sum(1 for cs in css if cs['locals'])}


def line_term(ptype_family, kind, w, K):
    """documented per-line penalty term (iteration 0) for the penalty families that vanish on the feasible set"""
    if ptype_family == 'quadratic': return float(2 * K) * max(0.0, w) ** 2 if kind == 'ineq' else float(K) * w ** 2
    if ptype_family == 'linear': return float(2 * K) * max(0.0, w) if kind == 'ineq' else float(K) * abs(w)
    if ptype_family == 'uniform': return (float(K) if w > 0 else 0.0) if kind == 'ineq' else (float(K) if w != 0 else 0.0)
    raise KeyError(ptype_family)


def run_penalty(rng, obs):
    import mystic.penalty as mp
    from mystic.symbolic import generate_conditions, generate_penalty
    n = rng.choice([1, 2, 3, 5, 9])
    variables, names = gen_names(rng, n)
    isolated = rng.random() < 0.5
    text, specs = gen_text(rng, n, names, isolated=isolated, nlines=rng.randint(1, min(4, n)) if isolated else None)
    x = gen_x(rng, n)
    on_boundary = False
    if isolated:
        # put some of the isolated variables exactly on their boundary (x_i == f): the line is then exactly active
        try:
            for (lhs, cmp, rhs) in specs:
                if rng.random() < 0.6:
                    x[names.index(lhs)] = T.value(rhs, T.env_of(names, x)); on_boundary = True
        except (ZeroDivisionError, OverflowError, ValueError):
            pass
    k = rng.choice([None, 1, 20, 100, 1000]); h = rng.choice([None, 2, 5])
    ptype = rng.choice([None, None, 'quadratic', 'linear', 'uniform', 'uniform'])
    obs.desc = {'text': text, 'variables': variables if isinstance(variables, str) else names, 'n': n, 'x': x, 'k': k, 'h': h, 'ptype': ptype}
    try:
        vals = evaluate(specs, names, x)
    except (ZeroDivisionError, OverflowError, ValueError):
        obs.skip('text undefined at x'); return
    tlines = text.splitlines()
    if len(tlines) >= 2 and rng.random() < 0.35:
        # the documented tuple-of-texts form: conditions come back per text, generate_penalty takes them as they are
        cut = sorted(rng.sample(range(1, len(tlines)), rng.randint(1, len(tlines) - 1)))
        groups = tuple('\n'.join(tlines[a:b]) for a, b in zip([0] + cut, cut + [len(tlines)]))
        conds = generate_conditions(groups, variables=variables, nvars=n)
        obs.desc['groups'] = list(groups); obs.event('tuple_of_texts')
        if ptype is not None:
            ptype = None; obs.desc['ptype'] = None        # (explicit penalty types are given per condition of ONE text)
    else:
        conds = generate_conditions(text, variables=variables, nvars=n)
    kw = {}
    if k is not None: kw['k'] = k
    if h is not None: kw['h'] = h
    pt = None
    if ptype is not None:
        pt = [[getattr(mp, ptype + '_inequality')] * len(conds[0]), [getattr(mp, ptype + '_equality')] * len(conds[1])]
        # a text whose lines are all of one kind may also be given ONE penalty type for all of its conditions (documented: "a mystic.penalty type, or a list ...")
        if (not len(conds[0]) or not len(conds[1])) and rng.random() < 0.6:
            pt = getattr(mp, ptype + ('_inequality' if len(conds[0]) else '_equality')); obs.desc['ptype_form'] = 'single'; obs.event('single_penalty_type_for_all_lines')
    # join=: the per-line penalties combined by a coupler (and_: their sum, or_: the smallest of them) instead of being stacked
    join = rng.choice([None, None, None, 'and_']) if 'groups' not in obs.desc else None
    if join:
        import mystic.coupler as mcp
        kw['join'] = getattr(mcp, join); obs.desc['join'] = join; obs.event('joined_penalties')
    try:
        pen = generate_penalty(conds, pt, **kw) if pt is not None else generate_penalty(conds, **kw)
    except Exception as e:
        obs.violation('pen:generate_penalty failed', text=text, error=repr(e)[:200]); return
    got = float(pen(list(x)))
    fam = ptype or 'quadratic'
    K = ({'quadratic': 100, 'linear': 100, 'uniform': float('inf')}[fam]) if k is None else k
    total, anyviol, allsat, flags, active = 0.0, False, True, [], False
    terms = []
    for (l, c, r) in vals:
        kind, w = expected_condition(l, c, r)
        total += line_term(fam, kind, w, K); terms.append(line_term(fam, kind, w, K))
        viol = (w > 0) if kind == 'ineq' else (w != 0)
        flags.append(viol)
        if w == 0: active = True
        anyviol |= viol; allsat &= not viol
    if join == 'or_':
        total = min(terms)
        allsat = total == 0; anyviol = total > 0
    same = (got == total) if not math.isfinite(total) else (close(got, total, 1e-9) or abs(got - total) <= 1e-9 * (1 + abs(total)))
    obs.check(same, 'pen:penalty equals the documented sum of per-line terms', text=text, x=x, k=K, ptype=ptype, observed=got, expected=total,
              some_line_exactly_active=active, join=join)
    if allsat:
        obs.check(got == 0.0, 'pen:penalty is zero where every line holds', text=text, x=x, observed=got, ptype=ptype, some_line_exactly_active=active)
    elif total > 1e-200:
        obs.check(got > 0.0, 'pen:penalty is positive where some line is violated', text=text, x=x, observed=got, expected=total, ptype=ptype)
    # iteration state: h^n growth
    if hasattr(pen, 'iter') and total > 0 and math.isfinite(total) and not join:
        pen.iter()
        H = 5 if h is None else h
        got2 = float(pen(list(x)))
        obs.check(close(got2, total * H, 1e-9), 'pen:after iter() every term grows by the factor h', text=text, observed=got2, expected=total * H, h=H, ptype=ptype)
        pen.clear()
        obs.check(close(float(pen(list(x))), total, 1e-9), 'pen:clear() resets the growth', text=text)
    obs.nontrivial = (True in flags and False in flags) or active
    obs.notes = {'penalty': got, 'violated_lines': flags, 'on_boundary': on_boundary}


def run_cross(rng, obs):
    """applying the constraint generated from a text drives the penalty generated from the same text to zero"""
    from mystic.symbolic import generate_conditions, generate_penalty, generate_constraint, generate_solvers
    n = rng.choice([2, 3, 4, 6, 10])
    variables, names = gen_names(rng, n)
    text, specs = gen_text(rng, n, names, isolated=True, nlines=rng.randint(1, min(3, n)))
    x = gen_x(rng, n)
    obs.desc = {'text': text, 'variables': variables if isinstance(variables, str) else names, 'n': n, 'x': x}
    try:
        vals = evaluate(specs, names, x)
    except (ZeroDivisionError, OverflowError, ValueError):
        obs.skip('text undefined at x'); return
    c = generate_constraint(generate_solvers(text, variables=variables, nvars=n))
    pen = generate_penalty(generate_conditions(text, variables=variables, nvars=n))
    before = float(pen(list(x)))
    y = [float(v) for v in c(list(x))]
    after = float(pen(list(y)))
    scale = max([1.0] + [abs(v) for l, _, r in vals for v in (l, r)])
    obs.check(after <= 1e-18 * scale * scale * 200, 'cross:the generated constraint drives the generated penalty to zero', text=text, x=x, y=y, before=before, after=after)
    obs.nontrivial = before > 0
    obs.notes = {'penalty_before': before, 'penalty_after': after}


def run_case(cls, idx, rng, obs):
    import warnings
    warnings.simplefilter('ignore')
    np.seterr(all='ignore')
    return {'conditions': run_conditions, 'interleaved': run_interleaved, 'penalty': run_penalty, 'constraint_zeroes_penalty': run_cross}[cls](rng, obs)
