"""C03 - hard constraints hold at every evaluation and for the reported result."""
import numpy as np
from .. import solverkit as K, solvermon as M

PROPERTY = 'C03'
LEVEL = 'exploration'
TECHNIQUE = 'runtime monitoring: in-call fixed-point assertion C(x)==x on every cost argument; step-boundary check of the reported solution/energy at every possible stop; pure vs in-place differential'
RULE = ('case = (solver, deterministic idempotent box-compatible constraint (pin, clamp, grid, integers, tie, affine, floor), pure or in-place, '
        'range mode other than clip=False, installation time, stop by tiny limits or Step count); non-trivial = the constraint changed >= 1 '
        'proposal in the run; distinct by canonical JSON')
ASSUMPTIONS = ['constraints are deterministic, idempotent and map the strict ranges into themselves',
               'reported-solution claims only when the constraints were installed before the first Step']
CLASSES = {
    'constrained': {'quick': 19200, 'thorough': 96000},
    'inplace_vs_pure': {'quick': 3840, 'thorough': 19200},
    'wrappers': {'quick': 800, 'thorough': 6000},
}
MIN_EVENTS = {'quick': {'assert:c03': 30000, 'constraint_altered': 3000, 'step_boundaries': 3000}}
CASE_TIMEOUT = 120


def run_case(cls, idx, rng, obs):
    import warnings, random, copy
    warnings.simplefilter('ignore')
    np.seterr(all='ignore')
    if cls == 'wrappers':
        from .c01 import run_wrapper
        return run_wrapper(rng, obs, focus='c03')
    cfg = M.gen_cfg(rng, 'c03')
    if cls == 'constrained':
        obs.desc = cfg
        run = M.Run(cfg, obs, 'c03')
        run.go()
        obs.nontrivial = run.altered > 0
        return
    # the same run with the pure and with the in-place version of the constraint: both are monitored
    cfg['cons']['when'] = 0
    trajs = []
    for inplace in (False, True):
        c2 = copy.deepcopy(cfg); c2['cons']['inplace'] = inplace
        random.seed(obs.seed); np.random.seed(obs.seed % (2 ** 32))
        from ..core import Obs
        sub = Obs(obs.cls, obs.idx, obs.seed)
        run = M.Run(c2, sub, 'c03')
        s, _, _ = run.go()
        for v in sub.violations: obs.violations.append(v)
        obs.nviol += sub.nviol
        for k, v in sub.events.items(): obs.event(k, v)
        trajs.append((K.snap(s), list(run.probe.calls), run.altered))
    obs.desc = cfg
    a, b = trajs
    # NOTE: identical trajectories are NOT required by the property (an in-place constraint legitimately rewrites the
    # numpy view mystic hands it, so stored vertices differ); both variants are judged separately by the monitors above,
    # and both must have evaluated the cost only at constrained points and report a constrained best.
    obs.check(len(a[1]) > 0 and len(b[1]) > 0, 'c03:both the pure and the in-place variant ran', calls=[len(a[1]), len(b[1])])
    obs.event('variants_identical_trajectory', int(a[0]['pop'] == b[0]['pop'] and [c[0] for c in a[1]] == [c[0] for c in b[1]]))
    obs.nontrivial = a[2] > 0
    obs.notes = {'calls': len(a[1]), 'altered': a[2]}
