"""C13 - compiled constraint functions enforce exactly the stated relation.

Contracts on the generated function: the relation holds on the output (strictly for
strict comparators), only the isolated variable changes, satisfying input is returned
unchanged (outside the documented strictness band), independent relations hold together;
boundsconstrain clips into the box and is the identity inside it."""
import math
import numpy as np
from ..refs import ctext as T

PROPERTY = 'C13'
LEVEL = 'exploration'
TECHNIQUE = 'runtime contracts (post-conditions evaluated by an independent interpreter of the constraint text) on generated relations and input vectors'
RULE = ('case = (isolated-form relation "xi CMP f(x)" over an expression zoo, comparator, variable naming scheme, 1-15 variables, input vector incl. exactly-on-boundary '
        'and huge magnitudes) or (bounds constraint, symbolic or not, input); non-trivial = the input violated the relation or sat exactly on the boundary; distinct by canonical JSON')
ASSUMPTIONS = ['inside the documented strictness band |x_i - f| <= 4*tolerance(f) moving the point is the design and is not judged as "changed a satisfying input"',
               'right-hand sides do not contain the isolated variable; several relations have left-hand variables that do not feed one another',
               'numpy elementary functions are the maths library of the oracle too (the generated code imports them)']
CLASSES = {
    'single': {'quick': 15000, 'thorough': 240000},
    'multi': {'quick': 4500, 'thorough': 60000},
    'same_variable': {'quick': 2400, 'thorough': 30000},
    'interleaved': {'quick': 2400, 'thorough': 30000},
    'bounds': {'quick': 2100, 'thorough': 30000},
    'named_collision': {'quick': 180, 'thorough': 1800},
}
MIN_EVENTS = {'quick': {'assert:rel': 5000, 'assert:frame': 5000, 'assert:bounds': 900, 'interleaved_functions_judged': 1500, 'with_user_locals': 800}}
CASE_TIMEOUT = 120
CMPS = ['=', '==', '<=', '>=', '<', '>', '!=']


def gen_names(rng, n):
    r = rng.random()
    if r < 0.5: return 'x', ['x%d' % i for i in range(n)]
    if r < 0.6 and n >= 2:
        # an explicit list of names that LOOK indexed but sit at other positions (x1 first, x0 second, ...): positions follow the list, not the digits
        names = ['%s%d' % (rng.choice('xy') if rng.random() < 0.3 else 'x', i) for i in range(n)]
        if len(set(names)) < n: names = ['x%d' % i for i in range(n)]
        rng.shuffle(names)
        return list(names), names
    if r < 0.8: return 'y', ['y%d' % i for i in range(n)]
    # names (incl. prefixes of one another) that are not substrings of the function names / float literals used by the zoo;
    # names that ARE such substrings are exercised by the class 'named_collision'
    pool = ['p', 'pq', 'pqr', 'u', 'u1', 'u12', 'w', 'wv', 'z', 'zz', 'k', 'kk', 'y', 'yz', 'd', 'g', 'gg', 'v', 'vv', 'j']
    names = rng.sample(pool, n) if n <= len(pool) else None
    if names is None: return 'x', ['x%d' % i for i in range(n)]
    return list(names), names


def gen_expr(rng, names, exclude, depth=2):
    """python-syntax expression over the other variables"""
    others = [v for v in names if v != exclude]
    def atom():
        if others and rng.random() < 0.7: return rng.choice(others)
        return repr(rng.choice([0.0, 1.0, -2.5, 0.5, 3.0, 1e-8, 1e8, -1e4, 7.25]))
    if depth <= 0 or rng.random() < 0.3:
        return atom()
    k = rng.choice(['lin', 'lin', 'pow', 'abs', 'minmax', 'trig', 'ratio', 'scale'])
    a, b = gen_expr(rng, names, exclude, depth - 1), gen_expr(rng, names, exclude, depth - 1)
    if k == 'lin': return '%s %s %s' % (a, rng.choice(['+', '-']), b)
    if k == 'scale': return '%s*(%s)' % (repr(rng.choice([2.0, -1.0, 0.5, 1e3])), a)
    if k == 'pow': return '(%s)**2' % a
    if k == 'abs': return 'abs(%s)' % a
    if k == 'minmax': return '%s(%s, %s)' % (rng.choice(['min', 'max']), a, b)
    if k == 'trig': return '%s(%s)' % (rng.choice(['sin', 'cos', 'tanh']), a)
    return '(%s)/(1.0 + (%s)**2)' % (a, b)


def gen_x(rng, n):
    mag = rng.choice([1.0, 1.0, 1.0, 1e-8, 1e8, 1e3])
    return [rng.choice([0.0, 1.0, -1.0, 2.5, -3.75, 0.1]) * mag * rng.choice([1.0, 1.0, 0.5, 3.0]) if rng.random() < 0.6 else rng.uniform(-5, 5) * mag for _ in range(n)]


def compile_constraint(text, variables, n, locals=None):
    from mystic.symbolic import generate_constraint, generate_solvers
    if locals is None:
        return generate_constraint(generate_solvers(text, variables=variables, nvars=n))
    return generate_constraint(generate_solvers(text, variables=variables, nvars=n, locals=dict(locals)))


CONSTS = ['A', 'B', 'K1', 'CC']          # names of user constants passed through `locals` (no substring of a variable / function name of the zoo)
TOLS = [(1e-6, 0.0), (1e-9, 1e-9), (0.5, 0.0), (1e-3, 1e-3), (1e-15, 1e-15)]


def gen_single(rng, use_locals=False):
    """one isolated-form relation + input vector; with use_locals the text refers to user constants and/or the strictness tolerance is user-chosen"""
    n = rng.choice([1, 2, 3, 4, 5, 8, 11, 15])
    variables, names = gen_names(rng, n)
    i = rng.randrange(n)
    cmp = rng.choice(CMPS)
    consts, tol, rel, locs = {}, 1e-15, 1e-15, None
    if use_locals:
        locs = {}
        if rng.random() < 0.75:
            for c in rng.sample(CONSTS, rng.randint(1, 2)): consts[c] = rng.choice([0.0, 1.0, -2.5, 0.5, 3.0, 40.0, -1e3])
            locs.update(consts)
        if rng.random() < 0.6 or not consts:
            tol, rel = rng.choice(TOLS)
            given = rng.choice(['both', 'both', 'tol', 'rel'])      # one given alone: the other keeps its documented default of 1e-15
            if given == 'tol': rel = 1e-15; locs.update({'tol': tol})
            elif given == 'rel': tol = 1e-15; locs.update({'rel': rel})
            else: locs.update({'tol': tol, 'rel': rel})
    rhs = gen_expr(rng, names + list(consts), names[i], rng.randint(0, 3))
    if consts and not any(c in rhs for c in consts):
        rhs = '%s + %s' % (rhs, sorted(consts)[0])
    text = '%s %s %s' % (names[i], cmp, rhs)
    x = gen_x(rng, n)
    env = T.env_of(names, x); env.update(consts)
    try:
        f = T.value(rhs, env)
    except (ZeroDivisionError, OverflowError, ValueError):
        return None
    if not math.isfinite(f):
        return None
    place = rng.random()
    if place < 0.25: x[i] = f                                  # exactly on the boundary
    elif place < 0.35: x[i] = float(np.nextafter(f, math.inf))
    elif place < 0.45: x[i] = float(np.nextafter(f, -math.inf))
    elif place < 0.7: x[i] = f + rng.choice([-1, 1]) * rng.choice([1e-3, 1.0, 50.0]) * max(1.0, abs(f))
    return {'text': text, 'variables': variables, 'names': names, 'n': n, 'i': i, 'cmp': cmp, 'rhs': rhs, 'x': x, 'f': f, 'locals': locs, 'tol': tol, 'rel': rel}


def judge_single(obs, c, sp, tag=''):
    text, n, i, cmp, x, f = sp['text'], sp['n'], sp['i'], sp['cmp'], sp['x'], sp['f']
    xin = list(x)
    y = c(list(x))
    y = [float(v) for v in y]
    ck = lambda ok, what, **kw: obs.check(ok, what, text=text, x=x, y=y, f=f, locals=sp['locals'], **dict(kw, **({'context': tag} if tag else {})))
    tolf = T.tolerance(f, sp['tol'], sp['rel'])
    band = abs(x[i] - f) <= 4 * tolf
    # (1) relation holds on the output
    yi = y[i]
    if cmp in ('=', '=='): ok = yi == f or abs(yi - f) <= 1e-12 * max(1.0, abs(f))
    elif cmp == '<=': ok = yi <= f + 4 * tolf
    elif cmp == '>=': ok = yi >= f - 4 * tolf
    elif cmp == '<': ok = yi < f
    elif cmp == '>': ok = yi > f
    else: ok = yi != f
    if not ok and cmp in ('<', '>', '!=') and yi == f and tolf < 2 * float(np.spacing(abs(f))):
        obs.event('user_tolerance_below_float_resolution_not_judged')      # a user-chosen tol/rel smaller than the spacing of floats at f cannot separate the point
    else:
        ck(ok, 'rel:the stated relation holds on the output (strictly for strict comparators)', cmp=cmp)
    # (2) only the isolated variable changes
    changed = [j for j in range(n) if j != i and not (y[j] == xin[j])]
    ck(not changed, 'frame:the output differs from the input at most in the isolated variable', changed=changed)
    # (3) satisfying input is returned unchanged (outside the strictness band)
    sat = T.holds(x[i], cmp, f)
    if sat and not band:
        ck(y == xin, 'frame:an input that already satisfies the relation is returned unchanged', cmp=cmp)
    elif sat and band:
        obs.event('strictness_band_not_judged')
    # (4) the move is minimal: the output lands on the boundary (+- tolerance), not somewhere else
    if not sat and cmp in ('<=', '>=', '<', '>'):
        ck(abs(yi - f) <= 8 * tolf + 1e-300, 'rel:a violating input is moved onto the boundary', cmp=cmp, distance=abs(yi - f))
    return sat, band


def run_single(rng, obs):
    use_locals = rng.random() < 0.3
    sp = gen_single(rng, use_locals)
    if sp is None:
        obs.skip('rhs undefined / not finite at x'); return
    obs.desc = {'text': sp['text'], 'variables': sp['variables'] if isinstance(sp['variables'], str) else sp['names'], 'n': sp['n'], 'x': sp['x'], 'locals': sp['locals']}
    c = compile_constraint(sp['text'], sp['variables'], sp['n'], sp['locals'])
    sat, band = judge_single(obs, c, sp)
    if use_locals: obs.event('with_user_locals')
    obs.nontrivial = (not sat) or sp['x'][sp['i']] == sp['f']
    obs.notes = {'satisfied_before': sat, 'in_band': band}


def run_interleaved(rng, obs):
    """several constraint functions are generated first (different texts, the same constant names with different values, different
    strictness tolerances, also plain ones), then all are used: a generated function must keep meaning ITS text with ITS locals"""
    k = rng.randint(2, 5)
    sps = []
    for _ in range(k * 3):
        sp = gen_single(rng, rng.random() < 0.7)
        if sp is not None: sps.append(sp)
        if len(sps) == k: break
    if len(sps) < 2:
        obs.skip('too few defined relations'); return
    fns = [compile_constraint(sp['text'], sp['variables'], sp['n'], sp['locals']) for sp in sps]
    extra = rng.random() < 0.5
    if extra:      # unrelated builds in between (defaults, and the other generator of the same module)
        from mystic.symbolic import generate_conditions
        compile_constraint('x0 < 3.0', 'x', 1)
        generate_conditions('x0 < A', nvars=1, locals={'A': 123.0, 'tol': 0.25, 'rel': 0.0})
    order = list(range(len(sps))); rng.shuffle(order)
    obs.desc = {'texts': [sp['text'] for sp in sps], 'locals': [sp['locals'] for sp in sps], 'x': [sp['x'] for sp in sps], 'order': order, 'extra_builds': extra}
    viol = 0
    for j in order:
        sat, band = judge_single(obs, fns[j], sps[j], tag='built %d function(s) later' % (len(sps) - 1 - j + (2 if extra else 0)))
        if not sat or sps[j]['x'][sps[j]['i']] == sps[j]['f']: viol += 1
        obs.event('interleaved_functions_judged')
    names_shared = len(set(c for sp in sps for c in (sp['locals'] or {}))) < sum(len(sp['locals'] or {}) for sp in sps)
    obs.nontrivial = viol >= 1 and names_shared
    obs.notes = {'functions': len(sps), 'locals_names_shared': names_shared}


def run_multi(rng, obs):
    n = rng.choice([2, 3, 4, 6, 9, 12])
    variables, names = gen_names(rng, n)
    k = rng.randint(2, min(4, n))
    lhs = rng.sample(range(n), k)
    free = [names[j] for j in range(n) if j not in lhs] or None
    lines, specs = [], []
    for i in lhs:
        cmp = rng.choice(['=', '<=', '>=', '<', '>'])
        # right-hand sides only use variables that are not on any left-hand side: the relations do not feed one another
        pool = [names[j] for j in range(n) if j not in lhs]
        rhs = gen_expr(rng, pool + [names[i]], names[i], rng.randint(0, 2)) if pool else repr(rng.choice([0.0, 1.5, -2.0]))
        lines.append('%s %s %s' % (names[i], cmp, rhs)); specs.append((i, cmp, rhs))
    text = '\n'.join(lines)
    x = gen_x(rng, n)
    obs.desc = {'text': text, 'variables': variables if isinstance(variables, str) else names, 'n': n, 'x': x}
    try:
        fs = [T.value(rhs, T.env_of(names, x)) for _, _, rhs in specs]
    except (ZeroDivisionError, OverflowError, ValueError):
        obs.skip('rhs undefined at x'); return
    if not all(map(math.isfinite, fs)): obs.skip('rhs not finite'); return
    if len(lines) >= 2 and rng.random() < 0.35:
        # the same relations handed over as a TUPLE of texts (groups of one or more lines): every relation of every group is enforced
        cut = sorted(rng.sample(range(1, len(lines)), rng.randint(1, len(lines) - 1)))
        groups = ['\n'.join(lines[a:b]) for a, b in zip([0] + cut, cut + [len(lines)])]
        from mystic.symbolic import generate_constraint, generate_solvers
        c = generate_constraint(generate_solvers(tuple(groups), variables=variables, nvars=n))
        obs.desc['groups'] = groups; obs.event('tuple_of_texts')
    else:
        c = compile_constraint(text, variables, n)
    y = [float(v) for v in c(list(x))]
    viol = 0
    for (i, cmp, rhs), f in zip(specs, fs):
        tolf = T.tolerance(f)
        yi = y[i]
        ok = {'=': abs(yi - f) <= 1e-12 * max(1.0, abs(f)), '<=': yi <= f + 4 * tolf, '>=': yi >= f - 4 * tolf, '<': yi < f, '>': yi > f}[cmp]
        obs.check(ok, 'rel:every one of several independent relations holds on the output', text=text, line='%s %s %s' % (names[i], cmp, rhs), x=x, y=y, f=f)
        if not T.holds(x[i], cmp, f): viol += 1
    untouched = [j for j in range(n) if j not in lhs]
    obs.check(all(y[j] == x[j] for j in untouched), 'frame:variables that are on no left-hand side are unchanged', text=text, x=x, y=y)
    obs.nontrivial = viol >= 1
    obs.notes = {'violated_before': viol}


def run_same_variable(rng, obs):
    """several relations on ONE left-hand variable whose right-hand sides do not involve it: a bound together with a forbidden value
    (also a forbidden value that coincides with the bound), or a lower with an upper bound; all must hold on the output"""
    n = rng.choice([1, 2, 3, 5])
    variables, names = gen_names(rng, n)
    i = rng.randrange(n)
    others = [v for v in names if v != names[i]]
    def rhs_expr():
        if others and rng.random() < 0.5:
            return '%s + %s' % (rng.choice(others), repr(rng.choice([0.0, 1.0, -2.5, 3.0])))
        return repr(rng.choice([0.0, 1.0, -2.5, 3.0, 0.5, 1e3, -40.0]))
    kind = rng.choice(['bound_neq_same', 'bound_neq_same', 'bound_neq_other', 'interval', 'bound_two_neq'])
    a = rhs_expr()
    if kind == 'bound_two_neq':       # two forbidden values, one of them the bound itself: every listing order must steer clear of both
        b2 = '%s + %s' % (a, repr(rng.choice([1.0, -1.0, 2.5])))
        lines = [(names[i], '!=', a), (names[i], '!=', b2), (names[i], rng.choice(['>=', '<=']), a)]
        rng.shuffle(lines)
    elif kind == 'interval':
        lines = [(names[i], '>=', a), (names[i], '<=', '%s + %s' % (a, repr(rng.choice([0.5, 2.0, 10.0]))))]
    else:
        b = a if kind == 'bound_neq_same' else rhs_expr()
        lines = [(names[i], rng.choice(['>=', '<=']), a), (names[i], '!=', b)]
    if rng.random() < 0.5: lines = lines[::-1]
    text = '\n'.join('%s %s %s' % l for l in lines)
    x = gen_x(rng, n)
    env = T.env_of(names, x)
    fs = [T.value(r, env) for _, _, r in lines]
    place = rng.random()
    if kind == 'bound_two_neq':
        k_ = next(j for j, l in enumerate(lines) if l[1] in ('>=', '<='))
        if place < 0.8: x[i] = fs[k_] + (-1 if lines[k_][1] == '>=' else 1) * rng.choice([1e-3, 1.0, 50.0]) * max(1.0, abs(fs[k_]))     # outside the bound: clipped onto it
    elif place < 0.3: x[i] = fs[0]                                             # exactly on the (first) right-hand side
    elif place < 0.65: x[i] = fs[0] + rng.choice([-1, 1]) * rng.choice([1e-3, 1.0, 50.0]) * max(1.0, abs(fs[0]))
    obs.desc = {'text': text, 'variables': variables if isinstance(variables, str) else names, 'n': n, 'x': x, 'kind': kind}
    c = compile_constraint(text, variables, n)
    y = [float(v) for v in c(list(x))]
    viol = 0
    for (l, cmp, r), f in zip(lines, fs):
        tolf = T.tolerance(f)
        yi = y[i]
        ok = {'<=': yi <= f + 4 * tolf, '>=': yi >= f - 4 * tolf, '!=': yi != f}[cmp]
        obs.check(ok, 'rel:every one of several relations on one variable holds on the output', text=text, line='%s %s %s' % (l, cmp, r), x=x, y=y, f=f, kind=kind)
        if not T.holds(x[i], cmp, f): viol += 1
    obs.check(all(y[j] == x[j] for j in range(n) if j != i), 'frame:the output differs from the input at most in the isolated variable', text=text, x=x, y=y)
    if viol == 0 and all(abs(x[i] - f) > 4 * T.tolerance(f) for f in fs):
        obs.check(y == x, 'frame:an input that already satisfies the relation is returned unchanged', text=text, x=x, y=y, kind=kind)
    obs.event('same_variable_cases')
    obs.nontrivial = viol >= 1
    obs.notes = {'violated_before': viol}


def run_bounds(rng, obs):
    from mystic.constraints import boundsconstrain
    n = rng.randint(1, 6)
    lo, hi = [], []
    for j in range(n):
        a = round(rng.uniform(-5, 3), 1); b = a + rng.choice([0.5, 2.0, 10.0])
        if rng.random() < 0.25:          # bounds that are exactly zero / whole numbers given as python ints
            a, b = rng.choice([(0.0, b - a), (a - b, 0.0), (0, 3), (-2, 0), (0.0, 0.5), (-0.0, 4.0)])
        lo.append(a); hi.append(b)
    shape = rng.choice(['finite', 'finite', 'onesided', 'degenerate', 'none'])
    deg = None
    if shape == 'onesided':
        j = rng.randrange(n)
        if rng.random() < 0.5: lo[j] = -math.inf
        else: hi[j] = math.inf
    elif shape == 'none':            # an open side written as None, on either side, possibly on several coordinates
        for j in rng.sample(range(n), rng.randint(1, min(2, n))):
            if rng.random() < 0.5: lo[j] = None
            else: hi[j] = None
    elif shape == 'degenerate':
        deg = rng.randrange(n); hi[deg] = lo[deg]
    symbolic = rng.choice([True, True, False])
    x = [rng.uniform(-8, 14) if rng.random() < 0.7 else (float(lo[j]) if lo[j] not in (None, -math.inf) else 0.0) for j in range(n)]
    obs.desc = {'lo': lo, 'hi': hi, 'symbolic': symbolic, 'x': x, 'shape': shape}
    L = [(-math.inf if v is None else v) for v in lo]; H = [(math.inf if v is None else v) for v in hi]
    usable = [j for j in range(n) if (math.isfinite(L[j]) or math.isfinite(H[j])) and L[j] != H[j]]
    try:
        c = boundsconstrain(list(lo), list(hi), symbolic=symbolic)
    except ZeroDivisionError as e:
        obs.violation('bounds:building the bounds constraint raised', symbolic=symbolic, lo=lo, hi=hi, error='ZeroDivisionError', usable_sides=len(usable))
        return
    y = [float(v) for v in c(list(x))]
    want = [min(max(v, a), b) for v, a, b in zip(x, L, H)]
    bad = [j for j in range(n) if not (L[j] <= y[j] <= H[j])]
    def rounded15(j):     # the output equals the violated bound rounded to 15 significant digits
        b = L[j] if y[j] < L[j] else H[j]
        return math.isfinite(b) and y[j] == float('%.15g' % b)
    obs.check(not bad, 'bounds:the bounds constraint clips into the box', lo=lo, hi=hi, symbolic=symbolic, x=x, y=y, outside=bad,
              degenerate_sides=[j for j in range(n) if L[j] == H[j]], outside_is_bound_rounded_to_15_digits=[rounded15(j) for j in bad])
    inside = all(a <= v <= b for v, a, b in zip(x, L, H))
    if inside:
        obs.check(y == x, 'bounds:the bounds constraint is the identity inside the box', lo=lo, hi=hi, symbolic=symbolic, x=x, y=y)
    elif not bad:
        close = all(abs(p - q) <= 4 * T.tolerance(q) for p, q in zip(y, want))
        obs.check(close, 'bounds:outside coordinates are clipped to the nearer bound, inside ones kept', lo=lo, hi=hi, symbolic=symbolic, x=x, y=y, expected=want)
    obs.nontrivial = not inside
    obs.notes = {'inside': inside}


def run_collision(rng, obs):
    """variable names that are substrings of function names used in the same text"""
    names = rng.sample(['a', 'b', 's', 'n', 'co', 'an', 'ab'], 3) + ['p', 'u']
    rng.shuffle(names)
    n = len(names)
    i = rng.randrange(n)
    others = [v for v in names if v != names[i]]
    fn = rng.choice(['abs', 'sin', 'cos', 'tanh', 'min', 'max'])
    arg = rng.choice(others)
    rhs = '%s(%s)' % (fn, arg) if fn not in ('min', 'max') else '%s(%s, 1.0)' % (fn, arg)
    text = '%s = %s' % (names[i], rhs)
    x = [rng.uniform(-2, 2) for _ in range(n)]
    obs.desc = {'text': text, 'variables': names, 'x': x}
    hit = [v for v in names if v in fn]
    try:
        c = compile_constraint(text, list(names), n)
        y = [float(v) for v in c(list(x))]
        f = T.value(rhs, T.env_of(names, x))
        obs.check(abs(y[i] - f) <= 1e-12 * max(1.0, abs(f)) and all(y[j] == x[j] for j in range(n) if j != i),
                  'rel:named variables are substituted as whole names', text=text, variables=names, x=x, y=y, f=f, names_inside_function_name=hit, function=fn)
    except (SyntaxError, NameError, TypeError, IndexError) as e:
        obs.violation('rel:named variables are substituted as whole names', text=text, variables=names, error=type(e).__name__, message=str(e)[:150],
                      names_inside_function_name=hit, function=fn)
    obs.nontrivial = bool(hit)


def run_case(cls, idx, rng, obs):
    import warnings
    warnings.simplefilter('ignore')
    np.seterr(all='ignore')
    return {'single': run_single, 'interleaved': run_interleaved, 'multi': run_multi, 'same_variable': run_same_variable, 'bounds': run_bounds, 'named_collision': run_collision}[cls](rng, obs)
