"""C10 - termination conditions mean what they say, alone and in combination.

Real solver objects are put into generated states through the public API (a Monitor
pre-loaded with an (x, y) history installed with SetGenerationMonitor; population,
popEnergy, bestSolution, trialSolution assigned; counters obtained by really stepping)
and every primitive / compound condition is compared with an independent evaluation
of its documented inequality (mv.refs.termination)."""
import math, random
import numpy as np
from ..refs import termination as ref

PROPERTY = 'C10'
LEVEL = 'exploration'
TECHNIQUE = 'reference-model monitor: documented inequalities re-evaluated on generated solver states; compound trees vs all/any; rebuild round trip'
RULE = ('case = (solver state: energy history/population/best/trial/counters, condition tree over the '
        'built-in primitives with generated tolerances and windows); non-trivial = the tree contains a '
        'primitive whose verdict flips when its window is moved by one or its tolerance is halved/doubled '
        '(near-threshold), or a compound tree in which satisfied and unsatisfied members coexist; '
        'distinct by canonical JSON of (state summary, tree)')
ASSUMPTIONS = ['tolerances are non-negative; comparisons within 1e-9 relative of a threshold are not judged',
               'window g must fit strictly inside the history (len > g), g=0/None means first-vs-last',
               'NormalizedCostTarget(fval=None, generations=0/None) is not judged (undocumented)',
               'CandidateRelativeTolerance only on populations with >= 2 members (documented requirement)']
CLASSES = {
    'primitive': {'quick': 46800, 'thorough': 468000},
    'tree': {'quick': 25200, 'thorough': 252000},
    'rebuild': {'quick': 5400, 'thorough': 54000},
    'counters': {'quick': 1080, 'thorough': 10800},
    'clock': {'quick': 2400, 'thorough': 24000},
}
MIN_EVENTS = {'quick': {'assert:primitive': 2000, 'assert:compound': 1000, 'assert:rebuild': 200}}
CASE_TIMEOUT = 60


# ---------------------------------------------------------------- generators
def gen_history(rng):
    kind = rng.choice(['mono', 'plateau', 'ties', 'inf', 'short', 'long', 'flat', 'wobble'])
    n = {'short': rng.randint(0, 3), 'long': rng.randint(30, 80)}.get(kind, rng.randint(1, 30))
    h = []
    v = rng.choice([1e-8, 1e-3, 1.0, 50.0, 1e6]) * rng.uniform(0.5, 2)
    if rng.random() < 0.3:
        v = -abs(v) * rng.uniform(0, 1) + rng.choice([0, 5.0])
    for i in range(n):
        if kind == 'inf' and i < rng.randint(0, max(0, n - 1)) and i < n - 1:
            h.append(float('inf'))
            continue
        if kind == 'flat':
            h.append(v); continue
        if kind in ('plateau', 'ties') and rng.random() < 0.6:
            h.append(v); continue
        step = abs(v) * rng.choice([0.5, 0.1, 1e-3, 1e-6, 1e-9]) + rng.choice([0, 1e-7, 1e-3])
        if kind == 'wobble' and rng.random() < 0.3:
            v = v + step
        else:
            v = v - step * rng.random()
        h.append(v)
    if kind == 'inf' and n and rng.random() < 0.3:
        h = [float('inf')] * n
    return h


def gen_population(rng, npop, dim):
    base = [rng.choice([0.0, 1.0, -3.0, 1e-4, 250.0]) * rng.uniform(0.5, 1.5) for _ in range(dim)]
    spread = rng.choice([0.0, 1e-9, 1e-6, 1e-4, 1e-2, 1.0])
    pop = [list(base)]
    for _ in range(npop - 1):
        pop.append([b + spread * rng.uniform(-1, 1) for b in base])
    e0 = rng.choice([0.0, 1.0, -2.0, 1e3]) * rng.uniform(0.5, 1.5)
    es = rng.choice([0.0, 1e-9, 1e-5, 1e-3, 1.0])
    sgn = rng.choice([1.0, 1.0, -1.0, 0.0])         # member 0 is the best (sorted populations), the worst, or somewhere in between
    ene = [e0] + [e0 + es * (rng.random() * sgn if sgn else rng.uniform(-1, 1)) for _ in range(npop - 1)]
    if npop > 1 and rng.random() < 0.35:
        # a single outlying member decides the population-based conditions: it may be any member, also the second or the last one
        j = rng.choice([1, npop - 1, rng.randrange(1, npop)])
        big = rng.choice([1e-5, 1e-3, 0.1, 3.0])
        pop[j] = [b + big * rng.choice([-1, 1]) for b in base]
        ene[rng.choice([1, npop - 1, j])] = e0 + big * rng.choice([1.0, 10.0, -1.0, -10.0])
    return pop, ene


def make_state(rng):
    """a real solver object in a generated state, plus the plain-data view for the oracle"""
    from mystic.solvers import NelderMeadSimplexSolver, DifferentialEvolutionSolver, DifferentialEvolutionSolver2
    from mystic.monitors import Monitor
    dim = rng.randint(1, 4)
    kind = rng.choice(['nm', 'de', 'de2'])
    if kind == 'nm':
        s = NelderMeadSimplexSolver(dim)
    elif kind == 'de':
        s = DifferentialEvolutionSolver(dim, rng.randint(4, 7))
    else:
        s = DifferentialEvolutionSolver2(dim, rng.randint(4, 7))
    npop = len(s.population)
    hist = gen_history(rng)
    mon = Monitor()
    xs = []
    for h in hist:
        x = [rng.uniform(-2, 2) for _ in range(dim)]
        xs.append(x)
        mon(x, h)
    s.SetGenerationMonitor(mon, new=True)
    pop, ene = gen_population(rng, npop, dim)
    s.population = [list(p) for p in pop]
    s.popEnergy = list(ene)
    best = list(pop[0]) if rng.random() < 0.5 else [p + rng.choice([0, 1e-7, 1e-3]) for p in pop[0]]
    s.bestSolution = np.array(best)
    s.bestEnergy = hist[-1] if hist else ene[0]
    dt = rng.choice([0.0, 1e-9, 1e-6, 1e-4, 0.1])
    if kind == 'de2' and rng.random() < 0.7:
        trial = [[b + dt * rng.uniform(-1, 1) for b in best] for _ in range(npop)]
    else:
        trial = [b + dt * rng.uniform(-1, 1) for b in best]
    s.trialSolution = trial
    # a linear cost so the forward-difference gradient is exact to rounding
    g = [rng.choice([0.0, 1e-7, 1e-3, 0.5, -2.0]) * rng.uniform(0.5, 1.5) for _ in range(dim)]
    cost = lambda x, g=tuple(g): float(sum(gi * xi for gi, xi in zip(g, x)))
    s.SetObjective(cost)
    exitflag = rng.random() < 0.3
    s._EARLYEXIT = exitflag
    view = {'hist': hist, 'pop': pop, 'ene': ene, 'best': best, 'trial': trial, 'grad': g,
            'generations': max(0, len(hist) - 1), 'evaluations': 0, 'exit': exitflag}
    return s, view, {'solver': kind, 'dim': dim, 'npop': npop, 'hist_len': len(hist),
                     'hist_tail': hist[-4:], 'exit': exitflag}


def near(rng, v, exact=False):
    """values straddling v; exact: also v itself - the threshold is met with equality (only where mystic and the oracle evaluate the very
    same floating-point expression, so that equality is reproducible)"""
    v = abs(v)
    f = [0.5, 0.9, 0.999, 1.001, 1.1, 2.0] + ([1.0, 1.0] if exact else [])
    return v * rng.choice(f) if v else rng.choice([0.0, 1e-12, 1e-6])


def gen_primitive(rng, view):
    """-> (name, kwargs) with parameters over-sampled near the state's thresholds"""
    h = view['hist']
    lg = len(h)
    name = rng.choice(ref.PRIMITIVES)
    def window():
        r = rng.random()
        if r < 0.12: return None
        if r < 0.24: return 0
        if r < 0.6 and lg: return max(0, lg + rng.choice([-2, -1, 0, 1, 2]))
        return rng.randint(1, max(2, lg + 3))
    def tol_for(d, exact=False):
        if d is None or not math.isfinite(d): return rng.choice([0.0, 1e-6, 1.0])
        return near(rng, d, exact) if rng.random() < 0.7 else rng.choice([0.0, 1e-8, 1e-4, 1e-2, 10.0])
    last = h[-1] if lg else 0.0
    g = window()
    gi = 0 if g is None else int(g)
    first = h[-gi] if lg and lg > gi else (h[0] if lg else 0.0)
    dd = (first - last) if (math.isfinite(first) and math.isfinite(last)) else None
    if name == 'VTR':
        target = rng.choice([0.0, last + rng.choice([-1, 1]) * rng.choice([1e-3, 0.5]) if math.isfinite(last) else 1.0])
        return name, {'tolerance': tol_for(abs(last - target) if math.isfinite(last) else None, True), 'target': target}
    if name == 'ChangeOverGeneration':
        return name, {'tolerance': tol_for(dd, True), 'generations': g}
    if name == 'NormalizedChangeOverGeneration':
        den = abs(first) + abs(last)
        d = (2 * dd / den) if (dd is not None and den and math.isfinite(den)) else None
        return name, {'tolerance': tol_for(d), 'generations': g}
    if name == 'CandidateRelativeTolerance':
        pop = np.array(view['pop']); ene = np.array(view['ene'])
        dx = float(np.max(np.abs(pop[1:] - pop[0]))) if len(pop) > 1 else 0.0
        df = float(np.max(np.abs(ene[1:] - ene[0]))) if len(ene) > 1 else 0.0
        return name, {'xtol': tol_for(dx), 'ftol': tol_for(df) if rng.random() < 0.6 else 1e9}
    if name == 'SolutionImprovement':
        return name, {'tolerance': tol_for(ref.solution_improvement_value(view))}
    if name == 'NormalizedCostTarget':
        fval = rng.choice([None, None, last * rng.choice([0.9, 1.0, 1.1, 2.0]) if math.isfinite(last) else 1.0, 0.0])
        d = abs((last - fval) / fval) if (fval not in (None, 0.0) and math.isfinite(last)) else None
        return name, {'fval': fval, 'tolerance': tol_for(d), 'generations': g}
    if name == 'VTRChangeOverGeneration':
        target = rng.choice([0.0, -1.0, last if math.isfinite(last) else 0.0])
        return name, {'ftol': tol_for(abs(last - target) if math.isfinite(last) else None, True) if rng.random() < 0.5 else 0.0,
                      'gtol': tol_for(dd, True), 'generations': g, 'target': target}
    if name == 'PopulationSpread':
        return name, {'tolerance': tol_for(ref.population_spread_value(view))}
    if name == 'GradientNormTolerance':
        p = rng.choice([float('inf'), 1, 2, 3])
        return name, {'tolerance': tol_for(ref.lnorm(view['grad'], p)), 'norm': p}
    if name == 'EvaluationLimits':
        G = rng.choice([None, view['generations'] + rng.choice([-1, 0, 1]), 0, 1000])
        E = rng.choice([None, view['evaluations'] + rng.choice([-1, 0, 1]), 10**6])
        return name, {'generations': G, 'evaluations': E}
    if name == 'TimeLimits':
        return name, {'seconds': rng.choice([0, 1e9])}
    if name == 'SolverInterrupt':
        return name, {}
    raise KeyError(name)


# documented default arguments: a primitive built without an argument must behave as if the documented default had been passed
DEFAULTS = {'VTR': {'tolerance': 0.005, 'target': 0.0}, 'ChangeOverGeneration': {'tolerance': 1e-6, 'generations': 30},
            'NormalizedChangeOverGeneration': {'tolerance': 1e-4, 'generations': 10}, 'CandidateRelativeTolerance': {'xtol': 1e-4, 'ftol': 1e-4},
            'SolutionImprovement': {'tolerance': 1e-5}, 'NormalizedCostTarget': {'fval': None, 'tolerance': 1e-6, 'generations': 30},
            'VTRChangeOverGeneration': {'ftol': 0.005, 'gtol': 1e-6, 'generations': 30, 'target': 0.0}, 'PopulationSpread': {'tolerance': 1e-6},
            'GradientNormTolerance': {'tolerance': 1e-5, 'norm': float('inf')}, 'EvaluationLimits': {'generations': None, 'evaluations': None}}


def with_defaults(rng, name, kw, view=None):
    """sometimes leave arguments to their documented defaults: the spec (what the oracle sees) carries the default value, the constructor
    call (spec[2] = names omitted) does not pass it"""
    d = DEFAULTS.get(name)
    if not d or rng.random() > 0.25:
        return [name, kw]
    omit = [k for k in kw if k in d and rng.random() < 0.6]
    kw = dict(kw)
    for k in omit: kw[k] = d[k]
    # put the state near the threshold the DEFAULT implies, where a free argument allows it
    last = view['hist'][-1] if view and view['hist'] else None
    if last is not None and math.isfinite(last):
        f = rng.choice([0.5, 0.9, 1.1, 2.0])
        if name == 'VTR' and 'tolerance' in omit and 'target' not in omit: kw['target'] = last + rng.choice([-1, 1]) * 0.005 * f
        if name == 'VTRChangeOverGeneration' and 'ftol' in omit and 'target' not in omit: kw['target'] = last + rng.choice([-1, 1]) * 0.005 * f
        if name == 'NormalizedCostTarget' and 'tolerance' in omit and 'fval' not in omit and last: kw['fval'] = last / (1.0 + rng.choice([-1, 1]) * 1e-6 * f)
    return [name, kw, omit]


def build(spec):
    import mystic.termination as mt
    if spec[0] in ('And', 'Or', 'When'):
        kids = [build(k) for k in spec[1]]
        return getattr(mt, spec[0])(*kids)
    omit = spec[2] if len(spec) > 2 else ()
    return getattr(mt, spec[0])(**{k: v for k, v in spec[1].items() if k not in omit})


def gen_tree(rng, view, depth):
    if depth <= 0 or rng.random() < 0.35:
        n, kw = gen_primitive(rng, view)
        return with_defaults(rng, n, kw, view)
    op = rng.choice(['And', 'Or', 'When'])
    if op == 'When':
        return [op, [gen_tree(rng, view, depth - 1)]]
    return [op, [gen_tree(rng, view, depth - 1) for _ in range(rng.randint(1, 3))]]


def leaves(spec):
    if spec[0] in ('And', 'Or', 'When'):
        out = []
        for k in spec[1]:
            out.extend(leaves(k))
        return out
    return [spec]


def view_dim(view):
    return len(view['best'])


def doc_of(spec):
    return build(spec).__doc__


def info_set(s):
    return set(x for x in s.split('; ') if x) if isinstance(s, str) else None


# ---------------------------------------------------------------- oracle over trees
def ref_tree(spec, view):
    """-> (verdict in {True, False, None}, set of docs info must equal, or None)"""
    op = spec[0]
    if op not in ('And', 'Or', 'When'):
        v = ref.evaluate(op, spec[1], view)
        return v, ({doc_of(spec)} if v else set()) if v is not None else None
    subs = [ref_tree(k, view) for k in spec[1]]
    vs = [v for v, _ in subs]
    if op in ('And', 'When'):
        if any(v is False for v in vs): return False, set()
        if any(v is None for v in vs): return None, None
        if any(i is None for _, i in subs): return True, None
        return True, set().union(*[i for _, i in subs])
    # Or
    if any(v is True for v in vs):
        if any(v is None for v in vs) or any(i is None for v, i in subs if v):
            return True, None
        return True, set().union(*[i for v, i in subs if v])
    if any(v is None for v in vs): return None, None
    return False, set()


def check_tree(obs, s, view, spec, tag):
    import mystic.termination as mt
    cond = build(spec)
    want, winfo = ref_tree(spec, view)
    got = cond(s)
    gi = cond(s, info=True)
    if want is None:
        obs.event('boundary_not_judged')
        return None
    clause = 'primitive' if spec[0] not in ('And', 'Or', 'When') else 'compound'
    obs.check(bool(got) == want, clause + ':verdict', tree=spec, state=obs.desc.get('state'),
              observed=bool(got), expected=want, tag=tag)
    obs.check(isinstance(got, (bool, np.bool_)), clause + ':without info the answer is a plain truth value', tree=spec, observed=repr(got)[:80])
    obs.check(bool(gi) == want, clause + ':info-truthiness', tree=spec, observed=gi, expected=want)
    if winfo is not None and isinstance(gi, str):
        obs.check(info_set(gi) == winfo, clause + ':info names exactly the satisfied primitives',
                  tree=spec, observed=sorted(info_set(gi)), expected=sorted(winfo))
    if spec[0] in ('And', 'Or', 'When'):
        kids = list(cond)
        sat = cond(s, 'self')
        unsat = cond(s, 'not')
        kid_true = [bool(k(s)) for k in kids]
        if spec[0] == 'Or':
            exp_sat = set(k for k, t in zip(kids, kid_true) if t)
        else:
            exp_sat = set(kids) if all(kid_true) else set()
        obs.check(set(sat) == exp_sat, "compound:'self' lists the satisfied members", tree=spec,
                  observed=len(sat), expected=len(exp_sat))
        obs.check(set(unsat) == set(kids) - exp_sat and not (set(sat) & set(unsat)),
                  "compound:'not' is the complement of 'self'", tree=spec)
        agg = all(kid_true) if spec[0] in ('And', 'When') else any(kid_true)
        obs.check(bool(got) == agg, 'compound:verdict is all/any of member verdicts', tree=spec,
                  members=kid_true, observed=bool(got))
    return want


def flips(rng, spec, view):
    """near-threshold: does the reference verdict flip under a small perturbation?"""
    name, kw = spec[0], spec[1]
    base = ref.evaluate(name, kw, view)
    if base is None:
        return False
    for k, v in kw.items():
        alts = []
        if k == 'generations' and v is not None:
            alts = [max(0, int(v) - 1), int(v) + 1]
        elif k in ('tolerance', 'xtol', 'ftol', 'gtol') and isinstance(v, float):
            alts = [v * 0.5, v * 2.0]
        elif k in ('evaluations',) and v is not None:
            alts = [v - 1, v + 1]
        for a in alts:
            kw2 = dict(kw); kw2[k] = a
            r = ref.evaluate(name, kw2, view)
            if r is not None and r != base:
                return True
    return False


def rebuild(cond):
    import mystic.termination as mt
    if isinstance(cond, tuple):
        return mt.type(cond)(*[rebuild(k) for k in cond])
    st = mt.state(cond)
    assert len(st) == 1
    (doc, kw), = st.items()
    return mt.type(cond)(**kw)


# ---------------------------------------------------------------- cases
def run_clock(rng, obs):
    """TimeLimits under a virtual clock (the time functions are replaced for the life of the condition): satisfied exactly when the time elapsed
    since construction - or since the last reset() - is >= seconds; alone, inside And / Or / When, and for a condition rebuilt from its state"""
    import time as _time, datetime
    import mystic.termination as mt
    system = rng.choice([None, True, False])
    name = {None: 'time', True: 'perf_counter', False: 'process_time'}[system]
    now = [rng.choice([0.0, 1000.0, 1.7e9])]
    real = getattr(_time, name)
    seconds = rng.choice([10, 2.5, 60.0, 0.001])
    given = datetime.timedelta(seconds=seconds) if rng.random() < 0.2 else seconds
    ops = []
    setattr(_time, name, lambda: now[0])
    try:
        kw = {} if system is None and rng.random() < 0.5 else {'system': system}
        c = mt.TimeLimits(given, **kw)
        shape = rng.choice(['bare', 'bare', 'or', 'and', 'when'])
        never, always = mt.VTR(-1.0, 0.0), mt.EvaluationLimits(0, 0)
        tree = c if shape == 'bare' else (mt.Or(never, c) if shape == 'or' else (mt.And(always, c) if shape == 'and' else mt.When(c)))
        since = now[0]
        inst = make_state(rng)[0]
        for _ in range(rng.randint(4, 12)):
            r = rng.random()
            if r < 0.55:
                dt = rng.choice([0.0, seconds * 0.5, seconds * 0.999, seconds, seconds * 1.5, seconds * 40])
                now[0] += dt; ops.append(['advance', dt])
            elif r < 0.8:
                c.reset(); since = now[0]; ops.append(['reset'])
            want = (now[0] - since) >= seconds
            got = bool(tree(inst))
            obs.check(got == want, 'primitive:verdict', condition='TimeLimits', seconds=seconds, system=system, shape=shape, ops=ops[-6:], elapsed_since_start_or_reset=now[0] - since,
                      observed=got, expected=want)
            info = tree(inst, info=True)
            obs.check((c.__doc__ in str(info)) == want, 'compound:info names exactly the satisfied primitives', condition='TimeLimits', shape=shape, info=str(info)[:120], expected=want, ops=ops[-6:])
            obs.event('assert:primitive'); obs.event('assert:compound')
    finally:
        setattr(_time, name, real)
    obs.desc = {'condition': 'TimeLimits', 'seconds': seconds, 'system': system, 'shape': shape, 'ops': ops}
    obs.nontrivial = any(o[0] == 'reset' for o in ops) and any(o[0] == 'advance' and o[1] >= seconds for o in ops)


def run_case(cls, idx, rng, obs):
    import warnings
    warnings.simplefilter('ignore')
    np.seterr(all='ignore')
    if cls == 'counters':
        return run_counters(rng, obs)
    if cls == 'clock':
        return run_clock(rng, obs)
    s, view, sdesc = make_state(rng)
    obs.desc['state'] = sdesc
    if cls == 'primitive':
        n, kw = gen_primitive(rng, view)
        spec = with_defaults(rng, n, kw, view)
        if len(spec) > 2: obs.event('built_with_default_arguments')
        obs.desc['tree'] = spec
        w = check_tree(obs, s, view, spec, 'primitive')
        if w is not None and flips(rng, spec, view):
            obs.nontrivial = True
        obs.notes = {'verdict': w}
    elif cls == 'tree':
        spec = gen_tree(rng, view, rng.randint(1, 4))
        if spec[0] not in ('And', 'Or', 'When'):
            spec = ['When', [spec]]
        obs.desc['tree'] = spec
        w = check_tree(obs, s, view, spec, 'tree')
        lv = [ref.evaluate(l[0], l[1], view) for l in leaves(spec)]
        if w is not None and (True in lv) and (False in lv):
            obs.nontrivial = True
        obs.notes = {'verdict': w, 'leaf_verdicts': lv}
    elif cls == 'rebuild':
        spec = gen_tree(rng, view, rng.randint(0, 3))
        obs.desc['tree'] = spec
        cond = build(spec)
        if rng.random() < 0.4:
            # conditions with MUTABLE settings (masks, per-parameter tolerances) inside the tree: what state() hands out is the caller's to edit -
            # the condition's own reported state must not follow such edits
            import copy, mystic.termination as mt
            extra = rng.choice([mt.CollapseAt(0.0, tolerance=1e-3, generations=3, mask={0}), mt.CollapseAs(False, tolerance=1e-3, generations=3, mask={(0, 1)})])
            cond = mt.Or(cond, extra) if rng.random() < 0.5 else mt.And(extra, cond)
            st1 = copy.deepcopy(mt.state(cond))
            handed = mt.state(cond)
            for v in handed.values():
                for kk, vv in list(v.items()):
                    if isinstance(vv, set): vv.add(7 if not vv or not isinstance(next(iter(vv)), tuple) else (5, 7))
                    elif isinstance(vv, list): vv.append(123.0)
                    elif isinstance(vv, dict): vv['edited'] = True
            st2 = mt.state(cond)
            obs.check(st2 == st1, 'rebuild:the reported state is the condition\'s own (editing an earlier report does not change it)', before=str(st1)[:300], after=str(st2)[:300])
            obs.event('state_aliasing_probes')
        try:
            again = rebuild(cond)
        except Exception as e:
            obs.violation('rebuild:type(c)(**state(c)) failed', tree=spec, error=repr(e)[:200])
            return
        nflip = 0
        seen = set()
        for j in range(12):
            s2, view2, _ = make_state(rng) if j else (s, view, None)
            if any(l[0] == 'TimeLimits' for l in leaves(spec)):
                pass  # seconds in {0, 1e9}: time-independent
            a, b = cond(s2), again(s2)
            ai, bi = cond(s2, info=True), again(s2, info=True)
            seen.add(bool(a))
            obs.check(bool(a) == bool(b) and info_set(ai) == info_set(bi),
                      'rebuild:rebuilt condition answers identically', tree=spec, observed=[bool(b), bi],
                      expected=[bool(a), ai])
        obs.nontrivial = len(seen) == 2
        obs.notes = {'verdicts_seen': sorted(seen)}


def run_counters(rng, obs):
    """EvaluationLimits against a solver whose counters come from really stepping"""
    import mystic.termination as mt
    from mystic.solvers import NelderMeadSimplexSolver, PowellDirectionalSolver, DifferentialEvolutionSolver
    dim = rng.randint(1, 3)
    kind = rng.choice(['nm', 'powell', 'de'])
    s = {'nm': NelderMeadSimplexSolver, 'powell': PowellDirectionalSolver}.get(kind, None)
    s = s(dim) if s else DifferentialEvolutionSolver(dim, 5)
    calls = [0]
    def cost(x):
        calls[0] += 1
        return float(sum((xi - 0.3) ** 2 for xi in x))
    s.SetInitialPoints([rng.uniform(-2, 2) for _ in range(dim)])
    s.SetEvaluationLimits(10**6, 10**9)
    s.SetObjective(cost)
    steps = rng.randint(1, 6)
    for _ in range(steps):
        s.Step()
    gens, evals = s.generations, s.evaluations
    obs.desc.update({'solver': kind, 'dim': dim, 'steps': steps})
    obs.check(evals == calls[0], 'primitive:setup counter equals real calls', observed=evals, expected=calls[0])
    flipped = set()
    for dG in (-1, 0, 1, None):
        for dE in (-1, 0, 1, None):
            G = None if dG is None else gens + dG
            E = None if dE is None else evals + dE
            want = (G is not None and gens >= G) or (E is not None and evals >= E)
            got = mt.EvaluationLimits(G, E)(s)
            flipped.add(want)
            obs.check(bool(got) == want, 'primitive:EvaluationLimits on real counters',
                      G=G, E=E, generations=gens, evaluations=evals, observed=bool(got), expected=want)
    obs.nontrivial = len(flipped) == 2
    obs.notes = {'generations': gens, 'evaluations': evals}
