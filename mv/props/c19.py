"""C19 - discrete measures: parameter-vector round trips and product structure.

Generated product measures / scenarios are flattened, loaded, updated, composed and
decomposed; weights/positions/statistics are compared with explicit sums computed by the
harness (itertools based, first factor varying fastest as documented)."""
import math, itertools
import numpy as np
from ..refs import stats as R

PROPERTY = 'C19'
LEVEL = 'exploration'
TECHNIQUE = 'round-trip and reference-model monitor: flatten/load/update/compose/pack vs explicit Cartesian products and weighted sums'
RULE = ('case = (shape: 1-4 factor measures x 1-5 points, weights incl. zeros, positions, optional scenario values, test function); '
        'non-trivial = >= 2 factors of unequal size with >= 1 zero weight, or a scenario with values attached; distinct by canonical JSON')
ASSUMPTIONS = ['point masses are compared by (position, weight)', 'statistics compared with rel 1e-9',
               'update() is exercised with parameter vectors that cover whole leading factor measures (the documented layout)']
CLASSES = {
    'roundtrip': {'quick': 27000, 'thorough': 270000},
    'structure': {'quick': 21600, 'thorough': 216000},
    'setters': {'quick': 10800, 'thorough': 108000},
}
MIN_EVENTS = {'quick': {'assert:roundtrip': 8000, 'assert:structure': 6000, 'assert:setter': 1500}}


def gen_shape(rng):
    k = rng.randint(1, 4)
    return tuple(rng.randint(1, 5) for _ in range(k))


def gen_measure_data(rng, pts, normalized=None):
    pos, wts = [], []
    normalized = rng.random() < 0.6 if normalized is None else normalized
    for n in pts:
        p = [round(rng.uniform(-5, 9), rng.choice([0, 1, 3])) for _ in range(n)]
        w = [rng.choice([0.0, 0.1, 0.25, 0.5, 1.0, 2.0]) for _ in range(n)]
        if not any(w) and rng.random() < 0.7: w[rng.randrange(n)] = 1.0      # an all-zero factor is a legitimate (massless) measure
        if normalized and any(w):
            s = sum(w); w = [v / s for v in w]
        pos.append(p); wts.append(w)
    return pos, wts


def cart(lists):
    """Cartesian product with the FIRST list varying fastest (documented _pack order)"""
    return [tuple(reversed(t)) for t in itertools.product(*reversed(lists))]


def same_pm(a_pos, a_wts, c):
    return [list(p) for p in c.pos] == a_pos and [list(w) for w in c.wts] == a_wts


def nontrivial_shape(pts, wts):
    return len(pts) >= 2 and len(set(pts)) >= 2 and any(0.0 in w for w in wts)


def run_roundtrip(rng, obs):
    from mystic.math.discrete import compose, decompose, flatten, unflatten, product_measure, scenario
    from mystic.math.measures import _pack, _unpack, _flat, _nested, _nested_split, split_param
    pts = gen_shape(rng)
    pos, wts = gen_measure_data(rng, pts)
    c = compose(pos, wts)
    ck = lambda ok, what, **kw: obs.check(ok, 'roundtrip:' + what, pts=pts, **kw)
    obs.desc = {'pts': pts, 'pos': pos, 'wts': wts}
    ck(tuple(c.pts) == pts and same_pm(pos, wts, c), 'compose builds the given factor measures')
    x, w = decompose(c)
    ck(x == pos and w == wts, 'decompose(compose(x,w)) == (x,w)', observed=[x, w])
    params = c.flatten()
    exp = []
    for p, ww in zip(pos, wts): exp += ww + p
    ck(list(params) == exp, 'flatten lists weights then positions per factor', observed=list(params), expected=exp)
    ck(list(flatten(c)) == exp, 'flatten(c) function agrees with the method')
    d = product_measure().load(params, pts)
    ck(same_pm(pos, wts, d) and tuple(d.pts) == pts, 'load(flatten(c), pts) returns an equal measure', observed=[d.pos, d.wts])
    e = unflatten(params, pts)
    ck(same_pm(pos, wts, e), 'unflatten(flatten(c), pts) returns an equal measure')
    ck(_unpack(_pack(pos), pts) == pos, '_unpack(_pack(x)) == x', observed=_unpack(_pack(pos), pts))
    ck(_pack(pos) == cart(pos), '_pack enumerates the Cartesian product, first factor fastest', observed=_pack(pos)[:6], expected=cart(pos)[:6])
    ck(_nested(_flat(pos), pts) == pos, '_nested(_flat(x)) == x')
    w2, x2 = _nested_split(list(params), pts)
    ck(w2 == wts and x2 == pos, '_nested_split separates weights and positions')
    fw, fx = split_param(list(params), pts)
    ck(fw == _flat(wts) and fx == _flat(pos), 'split_param gives flat weights and flat positions')
    # appended values are ignored by a plain product measure
    extra = [rng.uniform(-1, 1) for _ in range(rng.randint(1, 4))]
    d2 = product_measure().load(list(params) + extra, pts)
    ck(same_pm(pos, wts, d2) and len(d2) == len(pts), 'load ignores values appended to the parameter list', observed=len(d2))
    # update: a parameter vector covering the first j factors replaces exactly those
    j = rng.randint(1, len(pts))
    npos, nwts = gen_measure_data(rng, pts[:j])
    upd = []
    for p, ww in zip(npos, nwts): upd += ww + p
    before_tail = ([list(p) for p in c.pos[j:]], [list(w_) for w_ in c.wts[j:]])
    c.update(list(upd) + (extra if j == len(pts) else []))
    ck([list(p) for p in c.pos[:j]] == npos and [list(w_) for w_ in c.wts[:j]] == nwts, 'update replaces exactly the addressed leading measures',
       j=j, observed=[c.pos[:j], c.wts[:j]], expected=[npos, nwts])
    ck(([list(p) for p in c.pos[j:]], [list(w_) for w_ in c.wts[j:]]) == before_tail and tuple(c.pts) == pts,
       'update leaves the other measures and the shape unchanged', j=j)
    # scenario with values
    has_vals = rng.random() < 0.7
    if has_vals:
        N = int(np.prod(pts))
        vals = [round(rng.uniform(-3, 3), 2) for _ in range(N)]
        s = scenario(compose(pos, wts), list(vals))
        sp = s.flatten(all=True)
        ck(list(sp) == exp + vals, 'scenario.flatten appends the values', observed=list(sp)[-4:], expected=vals[-4:])
        ck(list(s.flatten(all=False)) == exp, 'scenario.flatten(all=False) omits the values')
        s2 = scenario().load(list(sp), pts)
        ck(same_pm(pos, wts, s2) and list(s2.values) == vals, 'scenario.load restores measures and values', observed=list(s2.values)[:4])
        nv = [v + 10.0 for v in vals[:rng.randint(1, N)]]
        s2.update(exp + nv)
        ck(list(s2.values) == nv + vals[len(nv):] and same_pm(pos, wts, s2), 'scenario.update replaces exactly the leading values',
           observed=list(s2.values)[:5], expected=(nv + vals[len(nv):])[:5])
        ck(list(s.values) == vals, 'updating a loaded copy leaves the original scenario values alone')
        # the list of values the caller built the scenario from stays the caller's: updating the scenario (or a second scenario built from
        # the same list, or a shallow copy taken earlier) changes that scenario only
        import copy
        mine = list(vals)
        s3 = scenario(compose(pos, wts), mine)
        s4 = scenario(compose(pos, wts), mine)
        snap = copy.copy(s3)
        s3.update(exp + nv)
        ck(list(s3.values) == nv + vals[len(nv):], 'scenario.update replaces exactly the leading values', observed=list(s3.values)[:5], expected=(nv + vals[len(nv):])[:5], built_from='a list the caller keeps')
        ck(mine == vals, 'update changes exactly the addressed scenario: the list it was built from is left as it was', observed=mine[:5], expected=vals[:5])
        ck(list(s4.values) == vals, 'update changes exactly the addressed scenario: a second scenario built from the same list is left as it was', observed=list(s4.values)[:5], expected=vals[:5])
        ck(list(snap.values) == vals, 'update changes exactly the addressed scenario: a copy taken before the update is left as it was', observed=list(snap.values)[:5], expected=vals[:5])
    obs.nontrivial = nontrivial_shape(pts, wts) or has_vals
    obs.notes = {'nparams': len(params), 'scenario': has_vals}


def run_structure(rng, obs):
    from mystic.math.discrete import compose
    pts = gen_shape(rng)
    pos, wts = gen_measure_data(rng, pts)
    c = compose(pos, wts)
    obs.desc = {'pts': pts, 'pos': pos, 'wts': wts}
    ck = lambda ok, what, **kw: obs.check(ok, 'structure:' + what, pts=pts, **kw)
    P = cart(pos)
    W = [math.prod(t) for t in cart(wts)]
    ck(c.npts == len(P) == int(np.prod(pts)), 'npts is the product of the factor sizes', observed=int(c.npts))
    ck([tuple(p) for p in c.positions] == P, 'positions are the Cartesian product in the documented order', observed=c.positions[:5], expected=P[:5])
    if all(q == 2 for q in pts):       # select(): positions by index, documented for measures of 2^K points
        N_ = len(P)
        picks = [list(range(N_)), [rng.randrange(N_)], sorted(rng.sample(range(N_), rng.randint(1, N_))), list(range(rng.randint(1, N_))), [0], [rng.randrange(max(1, N_ // 2))] * 2]
        for idx in picks:
            got = c.select(*idx)
            got = [tuple(got)] if len(idx) == 1 else [tuple(q) for q in got]      # (a single index gives the position itself)
            ck(got == [P[i] for i in idx], 'select(*index) gives the product positions with those indices', index=idx, observed=got[:4], expected=[P[i] for i in idx][:4])
        obs.event('select_cases')
    ck(len(c.weights) == len(W) and all(R.close(float(a), b) for a, b in zip(c.weights, W)), 'point weights are the products of the factor weights',
       observed=[float(v) for v in c.weights[:5]], expected=W[:5])
    ck(all(R.close(a, math.fsum(w)) for a, w in zip(c.mass, wts)), 'mass lists the factor masses', observed=list(c.mass))
    ck(R.close(math.fsum(float(v) for v in c.weights), math.prod(math.fsum(w) for w in wts)), 'total weight is the product of the masses')
    a = [rng.choice([1.0, -2.0, 0.5]) for _ in pts]; b = rng.choice([0.0, 1.0])
    f = lambda x: sum(ai * xi for ai, xi in zip(a, x)) + b * x[0] ** 2
    fy = [f(p) for p in P]
    tw = math.fsum(W)
    if tw == 0:          # massless product measure: expectations are undefined; structure and pof/support still are
        pf0 = float(c.pof(lambda x: f(x) - sorted(fy)[len(fy) // 2]))
        ck(pf0 == 0.0 and list(c.support()) == [] and list(c.support_index()) == [], 'a massless product measure has no support and zero probability of failure',
           observed=[pf0, len(c.support())])
        obs.nontrivial = nontrivial_shape(pts, wts); obs.notes = {'npts': len(P), 'massless': True}
        return
    ex = math.fsum(wi * yi for wi, yi in zip(W, fy)) / tw
    ck(R.close(float(c.expect(f)), ex, 1e-9, 1e-12), 'expect is the weighted sum of f over the product points', observed=float(c.expect(f)), expected=ex)
    ev = math.fsum(wi * (yi - ex) ** 2 for wi, yi in zip(W, fy)) / tw
    ck(R.close(float(c.expect_var(f)), ev, 1e-8, 1e-10), 'expect_var is the weighted variance of f over the product points', observed=float(c.expect_var(f)), expected=ev)
    thr = sorted(fy)[len(fy) // 2]
    g = lambda x: f(x) - thr
    pf = math.fsum(wi for wi, yi in zip(W, fy) if yi - thr <= 0.0)
    ck(R.close(float(c.pof(g)), pf, 1e-9, 1e-12), 'pof is the total weight where f <= 0', observed=float(c.pof(g)), expected=pf)
    sup = [p for p, wi in zip(P, W) if wi > 0]
    ck([tuple(p) for p in c.support()] == sup and list(c.support_index()) == [i for i, wi in enumerate(W) if wi > 0],
       'support lists exactly the product points of positive weight', observed=len(c.support()), expected=len(sup))
    # with a tolerance: a point counts as supported when ITS (product) weight exceeds tol - whatever the factor weights are (unnormalised factors may weigh more than 1)
    pos_w = sorted(set(wi for wi in W if wi > 0))
    if pos_w:
        tolv = rng.choice([pos_w[0], pos_w[len(pos_w) // 2], 0.5 * pos_w[0], 0.15, 1.0])
        margin = [abs(wi - tolv) for wi in W]
        if all(mg_ == 0 or mg_ > 1e-12 * max(1.0, tolv) for mg_ in margin):
            sup_t = [p for p, wi in zip(P, W) if wi > tolv]
            ck([tuple(p) for p in c.support(tolv)] == sup_t and list(c.support_index(tolv)) == [i for i, wi in enumerate(W) if wi > tolv],
               'support lists exactly the product points of positive weight', observed=len(c.support(tolv)), expected=len(sup_t), tol=tolv, weights=W[:8])
    # factor measure accessors
    m0 = c[0]
    ck(list(m0.weights) == wts[0] and list(m0.positions) == pos[0] and m0.npts == pts[0] and R.close(m0.mass, math.fsum(wts[0])), 'factor measure accessors')
    # a factor re-weighted IN PLACE after the product quantities were read (same total: a permutation of its weights): every product
    # quantity follows the factors as they are now
    k_ = rng.randrange(len(pts))
    if pts[k_] >= 2 and len(set(wts[k_])) >= 2:
        neww = list(wts[k_]); neww = neww[1:] + neww[:1]
        c[k_].weights = list(neww)
        wts2 = [list(w) for w in wts]; wts2[k_] = neww
        W2 = [math.prod(t) for t in cart(wts2)]
        ck(len(c.weights) == len(W2) and all(R.close(float(a_), b_) for a_, b_ in zip(c.weights, W2)), 'point weights are the products of the factor weights',
           after='a factor was re-weighted in place (same mass)', observed=[float(v) for v in c.weights[:5]], expected=W2[:5])
        if math.fsum(W2) > 0:
            ex2 = math.fsum(wi * yi for wi, yi in zip(W2, fy)) / math.fsum(W2)
            ck(R.close(float(c.expect(f)), ex2, 1e-9, 1e-12), 'expect is the weighted sum of f over the product points', after='a factor was re-weighted in place (same mass)',
               observed=float(c.expect(f)), expected=ex2)
        obs.event('inplace_reweightings')
    obs.nontrivial = nontrivial_shape(pts, wts)
    obs.notes = {'npts': len(P)}


def run_setters(rng, obs):
    from mystic.math.discrete import compose, measure, point_mass
    pts = gen_shape(rng)
    pos, wts = gen_measure_data(rng, pts)
    for p in pos:                      # non-degenerate positions for range/variance
        for i in range(len(p)): p[i] += 0.37 * i
    c = compose(pos, wts)
    obs.desc = {'pts': pts, 'pos': pos, 'wts': wts}
    ck = lambda ok, what, **kw: obs.check(ok, 'setter:' + what, pts=pts, **kw)
    k = rng.randrange(len(pts))
    if not any(wts[k]) or any(not any(w) for w in wts):
        obs.skip('massless factor: centre of mass undefined'); return
    m = c[k]
    sup = [x for x, w in zip(pos[k], wts[k]) if w > 0]
    t = rng.choice([0.0, 2.5, -4.0, 2.5, 1e4, -3e5])       # (incl. a measure sitting far from the origin compared with its spread)
    m.center_mass = t
    ck(R.close(R.wmean(m.positions, m.weights), t, 1e-9, 1e-9), 'center_mass setter reaches the value', t=t, observed=R.wmean(m.positions, m.weights))
    ck(list(m.weights) == wts[k], 'center_mass setter leaves the weights alone')
    moved = False
    if pts[k] >= 2 and max(pos[k]) - min(pos[k]) <= 1e-9:
        obs.event('zero_range_factor_not_rescaled')      # a factor whose positions coincide cannot be given a range by rescaling: undefined, not judged
    elif pts[k] >= 2:
        r = rng.choice([1.0, 6.0])
        m.range = r
        ck(R.close(max(m.positions) - min(m.positions), r), 'range setter reaches the value', r=r, observed=max(m.positions) - min(m.positions))
        ck(R.close(R.wmean(m.positions, m.weights), t, 1e-9, 1e-9), 'range setter keeps the centre of mass')
        if len(set(sup)) >= 2:
            v = rng.choice([0.5, 3.0])
            # conditioning: the deviations that get rescaled are differences of positions of size |t|, known to a few ulp(|t|); relative to the spread they had
            # before the call that is the accuracy any implementation can reach (matters only for a tight support far from the origin)
            sd0 = math.sqrt(max(R.wvar(m.positions, m.weights), 1e-300))
            vtol = 1e-8 + 8e-15 * max(abs(t), max(abs(p_) for p_ in m.positions)) / sd0
            m.var = v
            ck(R.close(R.wvar(m.positions, m.weights), v, vtol), 'var setter reaches the value', v=v, observed=R.wvar(m.positions, m.weights), tolerance=vtol)
            ck(R.close(R.wmean(m.positions, m.weights), t, 1e-9, 1e-9), 'var setter keeps the centre of mass')
            moved = True
    # product-level centre of mass
    targets = [rng.choice([0.0, 1.0, -2.0]) for _ in pts]
    c.center_mass = targets
    ck(all(R.close(R.wmean(mi.positions, mi.weights), ti, 1e-9, 1e-9) for mi, ti in zip(c, targets)), 'product center_mass setter reaches every value',
       observed=[float(v) for v in c.center_mass], expected=targets)
    ck([list(w) for w in c.wts] == wts, 'setters never change weights')
    # product positions setter round trip
    newpos = [[v + 1.0 for v in p] for p in c.pos]
    c.positions = cart(newpos)
    ck([list(p) for p in c.pos] == newpos, 'positions setter unpacks a product list back into the factors', observed=c.pos, expected=newpos)
    # normalize
    m2 = measure([point_mass(x, w) for x, w in zip(pos[k], [w_ * 3.0 for w_ in wts[k]])])
    cm = R.wmean(m2.positions, m2.weights)
    m2.normalize()
    ck(R.close(math.fsum(m2.weights), 1.0) and R.close(R.wmean(m2.positions, m2.weights), cm, 1e-9, 1e-9), 'measure.normalize gives unit mass and keeps the centre of mass')
    obs.nontrivial = moved and nontrivial_shape(pts, wts)


def run_case(cls, idx, rng, obs):
    import warnings
    warnings.simplefilter('ignore')
    np.seterr(all='ignore')
    return {'roundtrip': run_roundtrip, 'structure': run_structure, 'setters': run_setters}[cls](rng, obs)
