"""C11 - dimensional collapse is detected per definition, applied exactly, reported once.

Detectors are compared with a direct evaluation of their documented definition over the
look-back window (all mask formats), and fed their own output as mask (idempotence).
In a solver, Collapse() is wrapped to log what it applied; afterwards every cost-call
argument and the final solution must satisfy the collapsed relation exactly, the
termination's mask must have grown by what was applied, and the solve must terminate."""
import math, itertools
import numpy as np
from .. import solverkit as K

PROPERTY = 'C11'
LEVEL = 'exploration'
TECHNIQUE = 'reference-model monitor for the detectors (definition re-evaluated over the window, mask idempotence) + runtime monitoring of solver runs (Collapse() tap, in-call assertion of the collapsed relation, termination-mask ledger)'
RULE = ('detector case = (recorded history, tolerance, window, mask in set/dict/where format); non-trivial = non-empty result with a non-empty mask. '
        'solver case = (solver, cost with flat or tied directions, Or(stop, CollapseAt, CollapseAs)); non-trivial = >= 2 successive collapses; distinct by canonical JSON')
ASSUMPTIONS = ['comparisons within 1e-12 of the tolerance are not judged', 'measure monitors use factor measures of equal size (the monitor\'s documented layout)',
               'collapse_cost is only put through the mask idempotence check (its interval arithmetic is not specified by the property)']
CLASSES = {
    'detect_params': {'quick': 27000, 'thorough': 270000},
    'detect_measures': {'quick': 14400, 'thorough': 144000},
    'solver': {'quick': 1080, 'thorough': 10800},
    'mask_update': {'quick': 13500, 'thorough': 135000},
    'condition_objects': {'quick': 3000, 'thorough': 30000},
    'impose_measure': {'quick': 13500, 'thorough': 135000},
}
MIN_EVENTS = {'quick': {'assert:detect': 4000, 'assert:solver': 200, 'collapses_applied': 40, 'assert:mask': 2500, 'measure_constraints_applied': 1000}}
CASE_TIMEOUT = 300
BAND = 1e-12


def gen_history(rng, n, dim):
    """parameter histories with frozen, converging, tied and wandering columns"""
    cols = []
    for j in range(dim):
        kind = rng.choice(['frozen', 'converge', 'wander', 'near', 'tied'])
        base = rng.choice([0.0, 1.0, -2.5, 3.0])
        if kind == 'frozen': c = [base] * n
        elif kind == 'converge': c = [base + 2.0 * (0.5 ** i) for i in range(n)]
        elif kind == 'near': c = [base + rng.choice([0.0, 1e-3, 4e-3, 6e-3]) * rng.choice([-1, 1]) for _ in range(n)]
        elif kind == 'tied' and cols: c = [v + rng.choice([0.0, 0.0, 1e-3]) for v in cols[rng.randrange(len(cols))]]
        else: c = [base + rng.uniform(-1, 1) for _ in range(n)]
        cols.append(c)
    return [[cols[j][i] for j in range(dim)] for i in range(n)]


def judged(v, tol):
    # exact equality is decided (the documented test is <=); only a value within rounding distance of the tolerance is not
    return v == tol or abs(v - tol) > BAND * max(1.0, abs(tol))


def run_detect_params(rng, obs):
    from mystic.monitors import Monitor
    import mystic.collapse as mc
    n = rng.randint(1, 14); dim = rng.randint(1, 5)
    hist = gen_history(rng, n, dim)
    mon = Monitor()
    for i, x in enumerate(hist): mon(x, float(n - i))
    tol = rng.choice([0.0, 0.005, 1e-3, 0.05, 2.0])
    gens = rng.choice([0, 1, 2, 3, 5, n, n + 3, 50])
    win = hist[-gens:] if gens else hist
    which = rng.choice(['at', 'at_target', 'as', 'as_offset'])
    ck = lambda ok, what, **kw: obs.check(ok, 'detect:' + what, which=which, tol=tol, generations=gens, **kw)
    obs.desc = {'detector': which, 'hist': hist, 'tol': tol, 'generations': gens}
    if which in ('at', 'at_target'):
        target = None
        if which == 'at_target':
            target = rng.choice([0.0, 1.0, [rng.choice([0.0, 1.0, -2.5, 3.0]) for _ in range(dim)]])
        mask = set(rng.sample(range(dim), rng.randint(0, dim))) if rng.random() < 0.6 else None
        obs.desc.update({'target': target, 'mask': sorted(mask) if mask else mask})
        got = mc.collapse_at(mon, target=target, tolerance=tol, generations=gens, mask=set(mask) if mask is not None else None)
        want, ok_judge = set(), True
        for i in range(dim):
            col = [r[i] for r in win]
            if target is None: change = max(col) - min(col)
            else:
                t = target[i] if isinstance(target, list) else target
                change = max(abs(v - t) for v in col)
            if not judged(change, tol): ok_judge = False
            if change <= tol and not (mask and i in mask): want.add(i)
        if ok_judge:
            ck(set(int(i) for i in got) == want, 'collapse_at reports exactly the parameters whose window meets the tolerance test, minus the mask',
               observed=sorted(int(i) for i in got), expected=sorted(want), mask=sorted(mask) if mask else mask, target=target)
        again = mc.collapse_at(mon, target=target, tolerance=tol, generations=gens, mask=set(int(i) for i in got) | (mask or set()))
        ck(not again, 'feeding collapse_at its own output as mask yields nothing new', again=sorted(int(i) for i in again))
        obs.nontrivial = bool(got) and bool(mask)
    else:
        offset = which == 'as_offset'
        pairs_all = list(itertools.combinations(range(dim), 2))
        mask = None
        if rng.random() < 0.6 and dim >= 2:
            mask = set()
            for _ in range(rng.randint(0, 2)):
                if rng.random() < 0.5 and pairs_all:
                    p = rng.choice(pairs_all); mask.add(p if rng.random() < 0.5 else (p[1], p[0]))
                else: mask.add(rng.randrange(dim))
        obs.desc.update({'offset': offset, 'mask': sorted(map(str, mask)) if mask else mask})
        got = mc.collapse_as(mon, offset=offset, tolerance=tol, generations=gens, mask=set(mask) if mask is not None else None)
        want, ok_judge = set(), True
        for (i, j) in pairs_all:
            d = [abs(r[i] - r[j]) for r in win]
            change = (max(d) - min(d)) if offset else max(d)
            if not judged(change, tol): ok_judge = False
            masked = bool(mask) and (i in mask or j in mask or (i, j) in mask or (j, i) in mask)
            if change <= tol and not masked: want.add((i, j))
        gotn = set(tuple(sorted((int(a), int(b)))) for a, b in got)
        if ok_judge:
            ck(gotn == want, 'collapse_as reports exactly the pairs whose window meets the tolerance test, minus the mask', observed=sorted(gotn), expected=sorted(want),
               mask=sorted(map(str, mask)) if mask else mask, offset=offset)
        again = mc.collapse_as(mon, offset=offset, tolerance=tol, generations=gens, mask=set(tuple(map(int, p)) for p in got) | (mask or set()))
        ck(not again, 'feeding collapse_as its own output as mask yields nothing new', again=sorted(map(str, again)))
        obs.nontrivial = bool(got) and bool(mask)
    obs.notes = {'result_size': len(got)}


def run_detect_measures(rng, obs):
    from mystic.monitors import Monitor
    import mystic.collapse as mc
    nmeas = rng.randint(1, 3); npt = rng.randint(1, 4)
    npts = (npt,) * nmeas
    n = rng.randint(1, 10)
    tol = rng.choice([0.0, 0.005, 0.05, 0.5])
    gens = rng.choice([0, 1, 2, 4, n, n + 2])
    # history of flattened product measures: [w..., x...] per measure
    wcols = [[gen_history(rng, n, 1) for _ in range(npt)] for _ in range(nmeas)]
    # (weights of an unnormalised, unconstrained measure may be negative: the documented test is on the weight itself, max(weight[i]) <= tolerance)
    sgn = [[rng.choice([1.0, 1.0, 1.0, -1.0]) for k in range(npt)] for m in range(nmeas)]
    wts = [[[sgn[m][k] * abs(wcols[m][k][t][0]) * rng.choice([0.0, 0.001, 1.0]) for k in range(npt)] for m in range(nmeas)] for t in range(n)]
    pos = [gen_history(rng, n, npt) for _ in range(nmeas)]
    mon = Monitor(npts=npts)
    hist = []
    for t in range(n):
        x = []
        for m in range(nmeas): x += wts[t][m] + pos[m][t]
        hist.append(x); mon(x, float(n - t))
    win = range(n)[-gens:] if gens else range(n)
    which = rng.choice(['weight', 'position'])
    fmt = rng.choice(['none', 'dict', 'set', 'where'])
    obs.desc = {'detector': which, 'npts': npts, 'hist': hist, 'tol': tol, 'generations': gens, 'mask_format': fmt}
    ck = lambda ok, what, **kw: obs.check(ok, 'detect:' + what, which=which, fmt=fmt, tol=tol, generations=gens, npts=npts, **kw)
    ok_judge = True
    if which == 'weight':
        full = set()
        for m in range(nmeas):
            for k in range(npt):
                change = max(wts[t][m][k] for t in win)
                if not judged(change, tol): ok_judge = False
                if change <= tol: full.add((m, k))
        cand = sorted(full) + [(rng.randrange(nmeas), rng.randrange(npt))]
        msel = set(rng.sample(cand, rng.randint(0, min(2, len(cand)))))
        def fmtmask(S):
            if fmt == 'none': return None
            if fmt == 'set': return set(S)
            if fmt == 'dict':
                d = {}
                for m, k in S: d.setdefault(m, set()).add(k)
                return d
            S = sorted(S)
            return (tuple(m for m, k in S), tuple(k for m, k in S)) if S else ()
        def norm(res):
            if res is None: return set()
            if isinstance(res, dict): return set((int(m), int(k)) for m, ks in res.items() for k in ks)
            if isinstance(res, set): return set((int(m), int(k)) for m, k in res)
            res = tuple(res)
            return set(zip(map(int, res[0]), map(int, res[1]))) if len(res) == 2 else set()
        if fmt == 'none': msel = set()
        got = norm(mc.collapse_weight(mon, tolerance=tol, generations=gens, mask=fmtmask(msel)))
        want = full - msel
        if ok_judge:
            ck(got == want, 'collapse_weight reports exactly the weights that stay below tolerance over the window, minus the mask', observed=sorted(got), expected=sorted(want),
               mask=sorted(msel))
        if fmt != 'none':
            again = norm(mc.collapse_weight(mon, tolerance=tol, generations=gens, mask=fmtmask(msel | got)))
            ck(not again, 'feeding collapse_weight its own output as mask yields nothing new', again=sorted(again))
        obs.nontrivial = bool(got) and bool(msel)
    else:
        full = set()
        for m in range(nmeas):
            for (k, l) in itertools.combinations(range(npt), 2):
                change = max(abs(pos[m][t][k] - pos[m][t][l]) for t in win)
                if not judged(change, tol): ok_judge = False
                if change <= tol: full.add((m, (k, l)))
        allp = [(m, p) for m in range(nmeas) for p in itertools.combinations(range(npt), 2)]
        cand = sorted(full) + ([rng.choice(allp)] if allp else [])
        msel = set(rng.sample(cand, rng.randint(0, min(2, len(cand))))) if cand else set()
        def fmtmask(S):
            if fmt == 'none': return None
            if fmt == 'set': return set(S)
            if fmt == 'dict':
                d = {}
                for m, p in S: d.setdefault(m, set()).add(p)
                return d
            S = sorted(S)
            return (tuple(m for m, p in S), tuple(p for m, p in S)) if S else ()
        def norm(res):
            if res is None: return set()
            if isinstance(res, dict): return set((int(m), tuple(sorted(map(int, p)))) for m, ps in res.items() for p in ps)
            if isinstance(res, set): return set((int(m), tuple(sorted(map(int, p)))) for m, p in res)
            res = tuple(res)
            return set((int(m), tuple(sorted(map(int, p)))) for m, p in zip(res[0], res[1])) if len(res) == 2 else set()
        if fmt == 'none': msel = set()
        got = norm(mc.collapse_position(mon, tolerance=tol, generations=gens, mask=fmtmask(msel)))
        want = full - msel
        if ok_judge:
            ck(got == want, 'collapse_position reports exactly the position pairs that stay within tolerance over the window, minus the mask', observed=sorted(got),
               expected=sorted(want), mask=sorted(msel))
        if fmt != 'none':
            again = norm(mc.collapse_position(mon, tolerance=tol, generations=gens, mask=fmtmask(msel | got)))
            ck(not again, 'feeding collapse_position its own output as mask yields nothing new', again=sorted(again))
        obs.nontrivial = bool(got) and bool(msel)
    obs.notes = {'result_size': len(got)}


def run_condition_objects(rng, obs):
    """the Collapse* termination OBJECTS asked about different solvers in turn (multi-start loops, ensembles, post-hoc Collapsed() over
    finished solvers - also solvers whose histories have the same length): each answer is what the detector reports for THAT solver's
    recorded history, and the message round-trips through collapse.collapsed()"""
    from mystic.monitors import Monitor
    from mystic.solvers import NelderMeadSimplexSolver
    import mystic.collapse as mc, mystic.termination as mt
    dim = rng.randint(2, 5); n = rng.randint(4, 12)
    tol = rng.choice([0.005, 1e-3, 0.05, 2.0]); gens = rng.choice([1, 2, 3, 5])
    kind = rng.choice(['CollapseAt', 'CollapseAs'])
    target = rng.choice([None, 0.0, 1.0]) if kind == 'CollapseAt' else None
    cond = mt.CollapseAt(target, tolerance=tol, generations=gens) if kind == 'CollapseAt' else mt.CollapseAs(False, tolerance=tol, generations=gens)
    def solver_with(hist):
        s_ = NelderMeadSimplexSolver(dim)
        m_ = Monitor()
        for i, x in enumerate(hist): m_(x, float(len(hist) - i))
        s_.SetGenerationMonitor(m_, new=True)
        return s_, m_
    lens = [n, n, rng.choice([n, n + 1, max(2, n - 2)]), n]          # mostly EQUAL lengths
    hists = [gen_history(rng, L, dim) for L in lens]
    obs.desc = {'condition': kind, 'tol': tol, 'generations': gens, 'target': target, 'lengths': lens, 'dim': dim}
    seen_nonempty = 0
    order = [0, 1, 0, 2, 3, 1]
    solvers = [solver_with(h) for h in hists]
    for j in order:
        s_, m_ = solvers[j]
        msg = cond(s_, True)
        got = mc.collapsed(msg) if msg else None
        got = set(list(got.values())[0]) if got else set()
        if kind == 'CollapseAt':
            want = set(mc.collapse_at(m_, target=target, tolerance=tol, generations=gens)) if len(m_) > gens else set()
            got = set(int(i) for i in got); want = set(int(i) for i in want)
        else:
            want = set(mc.collapse_as(m_, offset=False, tolerance=tol, generations=gens)) if len(m_) > gens else set()
            got = set(tuple(sorted(map(int, q))) for q in got); want = set(tuple(sorted(map(int, q))) for q in want)
        obs.check(got == want and bool(cond(s_)) == bool(want), 'detect:a Collapse* condition reports what the detector reports for the solver it is asked about', condition=kind,
                  asked_about=j, order=order, lengths=lens, observed=sorted(map(str, got)), expected=sorted(map(str, want)), hist=hists[j][-3:])
        if want: seen_nonempty += 1
    obs.event('condition_object_evaluations', len(order))
    obs.nontrivial = seen_nonempty >= 1 and len(set(lens)) < len(lens)
    obs.notes = {'nonempty_answers': seen_nonempty}


def run_solver(rng, obs):
    import mystic.termination as mt
    from mystic.solvers import NelderMeadSimplexSolver, PowellDirectionalSolver, DifferentialEvolutionSolver
    dim = rng.randint(2, 5)
    kind = rng.choice(['nm', 'nm', 'powell', 'de'])
    spec = rng.choice([['flat', [round(rng.uniform(-1, 1), 2) for _ in range(dim)], rng.randint(1, dim - 1)],
                       ['tied', [round(rng.uniform(-1, 1), 2) for _ in range(dim)]],
                       ['sphere', [round(rng.uniform(-1, 1), 2) for _ in range(dim)]]])
    raw = K.make_cost(spec)
    gens = rng.choice([2, 3, 5]); tol = rng.choice([1e-3, 1e-2, 0.1])
    use_target = rng.random() < 0.4
    target = rng.choice([0.0, spec[1][0]]) if use_target else None
    if use_target and rng.random() < 0.4:      # one target per parameter (a sequence of the parameter length, as the detector documents)
        target = [rng.choice([0.0, c, c, round(c + 0.5, 2)]) for c in spec[1]]
    conds = ['at'] if rng.random() < 0.4 else (['as'] if rng.random() < 0.3 else ['at', 'as'])
    if rng.random() < 0.12:
        # many parameters, per-parameter targets, and a collapse of just two of them - one with a small index, one with a large one - at the same check
        # (a set like {3, 9} does not iterate in ascending order): each must be pinned at ITS target
        dim = rng.choice([9, 10, 12]); kind = rng.choice(['powell', 'nm'])
        cs = rng.sample([round(-2 + 0.25 * k_, 2) for k_ in range(17)], dim)
        spec = ['sphere', cs]; raw = K.make_cost(spec)
        b_ = rng.randrange(8, dim); a_ = rng.randrange((b_ % 8) + 1, 8)
        target = [cs[i] if i in (a_, b_) else cs[i] + 7.0 for i in range(dim)]
        conds = ['at']; tol = 1e-2; gens = rng.choice([2, 3])
        obs.event('wide_per_parameter_targets')
    obs.desc = {'solver': kind, 'dim': dim, 'cost': spec, 'window': gens, 'tol': tol, 'target': target, 'collapse': conds}
    # the ordinary stop: far away, or likely to fire at the very step a collapse is first reported (same window, energy tolerance of the
    # same order) - then the solver stops and must not half-apply that collapse
    stopkind = rng.choice(['late', 'late', 'same_window', 'vtr'])
    if stopkind == 'late': stop = mt.ChangeOverGeneration(1e-10, 40)
    elif stopkind == 'same_window': stop = mt.ChangeOverGeneration(rng.choice([1e-6, 1e-3, 1e-2]), gens)
    else: stop = mt.VTR(rng.choice([1e-2, 1e-3, 1e-5]), 0.0)
    obs.desc['stop'] = stopkind
    terms = [stop]
    if 'at' in conds: terms.append(mt.CollapseAt(target, tolerance=tol, generations=gens))
    if 'as' in conds: terms.append(mt.CollapseAs(False, tolerance=tol, generations=gens))
    import mystic.collapse as mc
    def solve_once(round_):
        probe = K.CostProbe(raw)
        s = {'nm': NelderMeadSimplexSolver, 'powell': PowellDirectionalSolver}.get(kind)
        s = s(dim) if s else DifferentialEvolutionSolver(dim, 3 * dim)
        x0 = [round(rng.uniform(-2, 2), 2) for _ in range(dim)]
        if 'as' in conds and rng.random() < 0.5:
            # a start whose two coordinates already (nearly) coincide: the tie is reported at the first eligible check
            i_, j_ = rng.sample(range(dim), 2); x0[j_] = x0[i_] + tol / 16.0
        if kind == 'de': s.SetRandomInitialPoints([-2.0] * dim, [2.0] * dim)
        else: s.SetInitialPoints(x0)
        G = 120
        s.SetEvaluationLimits(G, 10 ** 6)
        s.SetTermination(mt.Or(*terms))
        # ledger
        fixed, tied = {}, set()              # index -> value ; pairs
        when = {}                            # ('pin', i) / ('tie', i, j) -> number of the Collapse() call that applied it
        applied = []
        bad = []
        def groups():
            parent = list(range(dim))
            def find(i):
                while parent[i] != i: i = parent[i]
                return i
            for (i, j) in tied: parent[find(i)] = find(j)
            g = {}
            for i in range(dim): g.setdefault(find(i), []).append(i)
            return list(g.values())
        def relation_violations(x):
            """pins hold exactly; tied members are equal; a tied group that contains pinned members sits at one of their pinned values"""
            out = []
            for g in groups():
                pins = [fixed[i] for i in g if i in fixed]
                vals = [x[i] for i in g]
                ok = len(set(vals)) == 1 and (not pins or vals[0] in pins)
                if not ok:
                    late = [(i, j) for (i, j) in tied if i in g and any(('pin', m) in when and when[('pin', m)] < when[('tie', i, j)] for m in (i, j))]
                    out.append({'group': g, 'values': vals, 'pinned': {str(i): fixed[i] for i in g if i in fixed}, 'ties_applied_after_a_pin_of_a_member': late,
                                'tie_collapse_calls': sorted(set(when[('tie', i, j)] for (i, j) in tied if i in g))})
            return out
        def hook(seq, x):
            if fixed or tied:
                v = relation_violations(x)
                if v and len(bad) < 4: bad.append({'seq': seq, 'x': list(x), 'groups': v})
        probe.hooks.append(hook)
        real_collapse = s.Collapse
        def masks():
            st = mt.state(s._termination)
            out = {}
            for k, v in st.items():
                if k.startswith('Collapse'): out[k.split(' with ')[0]] = v.get('mask')
            return out
        def Collapse(*a, **kw):
            before = masks()
            best = [float(v) for v in np.ravel(s.bestSolution)]
            res = real_collapse(*a, **kw)
            if res:
                after = masks()
                rec = {'before': {k: sorted(map(str, v)) if v else v for k, v in before.items()}, 'applied': {}}
                for k, v in res.items():
                    name = k.split(' with ')[0]
                    rec['applied'][name] = sorted(map(str, v))
                    prev = set(before.get(name) or set())
                    now = set(after.get(name) or set())
                    obs.check(now == prev | set(v), 'solver:the termination mask grows by exactly what was applied', condition=name, before=sorted(map(str, prev)),
                              applied=sorted(map(str, v)), after=sorted(map(str, now)), solver=kind)
                    obs.check(not (prev & set(v)), 'solver:the same collapse is never reported again', condition=name, again=sorted(map(str, prev & set(v))), solver=kind)
                    if name == 'CollapseAt':
                        for i in v:
                            fixed[int(i)] = (float(target[int(i)]) if isinstance(target, list) else float(target)) if target is not None else best[int(i)]
                            when[('pin', int(i))] = len(applied)
                    elif name == 'CollapseAs':
                        for (i, j) in v:
                            tied.add((int(i), int(j))); when[('tie', int(i), int(j))] = len(applied)
                rec['calls_at'] = probe.n
                rec['best'] = best
                applied.append(rec)
                obs.event('collapses_applied')
            return res
        s.Collapse = Collapse
        nstep = [0]
        real_step = s.Step
        class TooLong(Exception): pass
        def Step(*a, **kw):
            nstep[0] += 1
            if nstep[0] > (G + 2) * (dim * dim + 4): raise TooLong()
            return real_step(*a, **kw)
        s.Step = Step
        savefile = None
        if rng.random() < 0.15:       # a periodic restart file is written while the solve goes through its collapses
            import os
            from .. import env
            d = os.path.join(env.OUT, 'c11'); os.makedirs(d, exist_ok=True)
            savefile = os.path.join(d, 'restart-%d-%d-%d.pkl' % (obs.idx, os.getpid(), round_))
            s.SetSaveFrequency(rng.choice([1, 3, 5]), savefile)
        try:
            s.Solve(probe, disp=0)
            finished = True
        except TooLong:
            finished = False
        if savefile and finished:
            import os
            from mystic.solvers import LoadSolver
            if os.path.exists(savefile):
                try:
                    r = LoadSolver(savefile)
                    rep = r.Collapsed(info=True) or {}
                    st = mt.state(r._termination)
                    for k_, v_ in (rep.items() if isinstance(rep, dict) else []):
                        norm = lambda S: set(tuple(sorted(map(int, i))) if isinstance(i, (tuple, list)) else int(i) for i in (S or ()))
                        name_ = k_.split(' with ')[0]       # (the report may be keyed by an older wording of the condition: match by kind)
                        inmask = set()
                        for k2, v2 in st.items():
                            if k2.split(' with ')[0] == name_: inmask |= norm(v2.get('mask'))
                        again = norm(v_) & inmask
                        obs.check(not again, 'solver:the same collapse is never reported again', condition=k_.split(' with ')[0], again=sorted(map(str, again)), solver=kind,
                                  where='Collapsed() of the solver restored from the restart file written during the solve')
                    obs.event('restart_files_of_collapsing_solves')
                finally:
                    try: os.remove(savefile)
                    except OSError: pass
        obs.check(finished and bool(s.Terminated()), 'solver:the solve still terminates after collapses', steps=nstep[0], solver=kind, collapses=len(applied))
        obs.check(not bad, 'solver:every point evaluated after a collapse satisfies the collapsed relation exactly', first=bad[:2], solver=kind, fixed=fixed,
                  tied=sorted(tied), ncalls=probe.n)
        best = [float(v) for v in np.ravel(s.bestSolution)]
        fv = relation_violations(best) if (fixed or tied) else []
        obs.check(not fv, 'solver:the final solution satisfies the collapsed relations exactly', best=best, fixed=fixed, tied=sorted(tied), solver=kind,
                  calls_after_last_collapse=(probe.n - applied[-1]['calls_at']) if applied else None,
                  best_unchanged_since_a_collapse=any(a.get('best') == best for a in applied), stop=str(s.Terminated(info=True))[:100],
                  first=[{'seq': None, 'x': best, 'groups': fv}] if fv else [])
        obs.event('cost_calls', probe.n)
        obs.nontrivial = len(applied) >= 2
        obs.notes = {'collapses': len(applied), 'fixed': {str(k): v for k, v in fixed.items()}, 'tied': sorted(tied), 'steps': nstep[0], 'stop': str(s.Terminated(info=True))[:120]}


    solve_once(0)
    if rng.random() < 0.35:
        # the SAME condition objects serve a second, fresh solver (multi-start use): nothing may be remembered from the first solve
        obs.event('termination_objects_reused')
        solve_once(1)


def run_mask_update(rng, obs):
    """the termination's mask grows by exactly what was applied (mask.update_mask, every mask format, inside compound conditions)"""
    import mystic.termination as mt
    from mystic.mask import update_mask
    kind = rng.choice(['CollapseAt', 'CollapseAs', 'CollapseWeight', 'CollapsePosition'])
    nmeas, npt, dim = rng.randint(1, 4), rng.randint(2, 4), rng.randint(2, 6)
    def rand_items(k):
        if kind == 'CollapseAt': return set(rng.sample(range(dim), min(k, dim)))
        if kind == 'CollapseAs': return set(rng.sample(list(itertools.combinations(range(dim), 2)), min(k, dim * (dim - 1) // 2)))
        if kind == 'CollapseWeight': return set((rng.randrange(nmeas), rng.randrange(npt)) for _ in range(k))
        return set((rng.randrange(nmeas), tuple(sorted(rng.sample(range(npt), 2)))) for _ in range(k))
    old_items = rand_items(rng.randint(0, 3))
    new_items = rand_items(rng.randint(1, 3))
    fmt = 'set' if kind in ('CollapseAt', 'CollapseAs') else rng.choice(['dict', 'dict', 'set', 'where'])
    def encode(S, empty_as_none):
        if not S and empty_as_none: return None
        if fmt == 'set': return set(S)
        if fmt == 'dict':
            d = {}
            for m, v in S: d.setdefault(m, set()).add(v)
            return d
        S2 = sorted(S)
        return (tuple(m for m, v in S2), tuple(v for m, v in S2)) if S2 else ()
    def decode(mask):
        if mask is None: return set()
        if isinstance(mask, dict): return set((int(m), (tuple(map(int, v)) if isinstance(v, tuple) else int(v))) for m, vs in mask.items() for v in vs)
        if isinstance(mask, set): return set((tuple(map(int, i)) if isinstance(i, tuple) and not isinstance(i[1], tuple) else ((int(i[0]), tuple(map(int, i[1]))) if isinstance(i, tuple) else int(i))) for i in mask) if kind not in ('CollapseAt',) else set(int(i) for i in mask)
        mask = tuple(mask)
        return set(zip(map(int, mask[0]), [tuple(map(int, v)) if isinstance(v, tuple) else int(v) for v in mask[1]])) if len(mask) == 2 else set()
    mk = getattr(mt, kind)
    cond = mk(mask=encode(old_items, rng.random() < 0.5), generations=rng.choice([2, 5, 50]))
    other = mt.VTR(1e-3)
    other_collapse = mt.CollapseAt(mask={0}) if kind != 'CollapseAt' else mt.CollapseAs(mask={(0, 1)})
    shape = rng.choice(['bare', 'or', 'nested'])
    term = cond if shape == 'bare' else (mt.Or(other, cond, other_collapse) if shape == 'or' else mt.Or(other, mt.And(cond, mt.ChangeOverGeneration()), other_collapse))
    before = mt.state(term)
    key = cond.__doc__
    newterm = update_mask(term, {key: encode(new_items, False)})
    after = mt.state(newterm)
    grown = [k for k in after if k.startswith(kind + ' with')]
    obs.desc = {'kind': kind, 'format': fmt, 'old': sorted(map(str, old_items)), 'new': sorted(map(str, new_items)), 'shape': shape}
    ok = len(grown) == 1
    obs.check(ok, 'mask:the updated termination still holds exactly one condition of the collapsed kind', kinds=list(after))
    if ok:
        got = decode(after[grown[0]].get('mask'))
        want = set(old_items) | set(new_items)
        if kind == 'CollapseAs': got = set(tuple(sorted(p)) for p in got); want = set(tuple(sorted(p)) for p in want)
        obs.check(got == want, 'mask:the termination mask grows by exactly what was applied', kind=kind, format=fmt, old=sorted(map(str, old_items)),
                  applied=sorted(map(str, new_items)), observed=sorted(map(str, got)), expected=sorted(map(str, want)), shape=shape)
        rest_b = {k: v for k, v in before.items() if not k.startswith(kind + ' with')}
        rest_a = {k: v for k, v in after.items() if not k.startswith(kind + ' with')}
        obs.check(str(rest_b) == str(rest_a), 'mask:other conditions of the termination are left alone', before=str(rest_b)[:200], after=str(rest_a)[:200])
        # the settings other than the mask survive the update
        kb = {k: v for k, v in before[key].items() if k != 'mask'}; ka = {k: v for k, v in after[grown[0]].items() if k != 'mask'}
        obs.check(kb == ka, 'mask:tolerance/window settings survive the mask update', before=kb, after=ka)
    obs.nontrivial = bool(old_items) and bool(set(new_items) - set(old_items))
    obs.notes = {'old': len(old_items), 'new': len(new_items)}


def run_impose_measure(rng, obs):
    """what a solver installs when weight / position collapses of a product measure are applied (constraints.impose_measure, and its
    one-sided forms impose_weight / impose_position): on the output every collapsed weight is exactly 0 and every collapsed pair of
    positions is exactly equal - also when the same measure has both kinds of collapse and they overlap - while each measure keeps
    its total weight and weighted mean"""
    import mystic.constraints as mc
    nm = rng.randint(1, 3)
    npts = tuple(rng.randint(2, 4) for _ in range(nm))
    tracking, noweight = {}, {}
    for m in range(nm):
        n = npts[m]
        if rng.random() < 0.7:
            pairs = set()
            for _ in range(rng.randint(1, 2)):
                i, j = sorted(rng.sample(range(n), 2)); pairs.add((i, j))
            tracking[m] = pairs
        if rng.random() < 0.7:
            k = rng.randint(1, n - 1)
            cand = list(range(n))
            if m in tracking and rng.random() < 0.6:      # overlap: the dead weight is a member (often the leader) of a tracked pair
                first = rng.choice([p[0] for p in tracking[m]] + [p[1] for p in tracking[m]])
                cand.remove(first); idx = {first} | set(rng.sample(cand, k - 1))
            else: idx = set(rng.sample(cand, k))
            noweight[m] = idx
    if not tracking and not noweight: noweight[0] = {0}
    params = []
    for m in range(nm):
        w = [rng.choice([0.0, 0.1, 0.25, 0.5, 1.0]) for _ in range(npts[m])]
        if not any(w): w[rng.randrange(npts[m])] = 1.0
        tot = sum(w); w = [v / tot for v in w]
        params += w + [round(rng.uniform(-5, 5), 2) for _ in range(npts[m])]
    which = 'measure' if (tracking and noweight) else rng.choice(['measure', 'one_sided'])
    ident = lambda x: x
    if which == 'measure': f = mc.impose_measure(npts, dict(tracking), dict(noweight))(ident)
    elif tracking: f = mc.impose_position(npts, dict(tracking))(ident); noweight = {}
    else: f = mc.impose_weight(npts, dict(noweight))(ident)
    obs.desc = {'npts': list(npts), 'tracking': {str(k): sorted(v) for k, v in tracking.items()}, 'noweight': {str(k): sorted(v) for k, v in noweight.items()},
                'params': params, 'form': which}
    y = [float(v) for v in f(list(params))]
    ck = lambda ok, what, **kw: obs.check(ok, 'measure:' + what, npts=list(npts), tracking=obs.desc['tracking'], noweight=obs.desc['noweight'], x=params, y=y, form=which, **kw)
    ofs = 0
    for m in range(nm):
        n = npts[m]
        w0, p0 = params[ofs:ofs + n], params[ofs + n:ofs + 2 * n]
        w1, p1 = y[ofs:ofs + n], y[ofs + n:ofs + 2 * n]
        ofs += 2 * n
        dead = sorted(noweight.get(m, ()))
        ck(all(w1[i] == 0.0 for i in dead), 'every collapsed weight is exactly zero on the output', measure=m, weights=w1, collapsed=dead)
        # connected groups of tracked positions
        parent = list(range(n))
        def find(i):
            while parent[i] != i: i = parent[i]
            return i
        for (i, j) in tracking.get(m, ()): parent[find(j)] = find(i)
        groups = {}
        for i in range(n): groups.setdefault(find(i), []).append(i)
        for g in groups.values():
            if len(g) > 1:
                ck(len(set(p1[i] for i in g)) == 1, 'every collapsed pair of positions is exactly equal on the output', measure=m, positions=p1, group=g)
        t0, t1 = sum(w0), sum(w1)
        ck(abs(t1 - t0) <= 1e-12 * max(1.0, abs(t0)), 'each measure keeps its total weight', measure=m, before=t0, after=t1)
        alive = [i for i in range(n) if i not in dead]
        if t1 > 0 and any(w0[i] > 0 for i in alive):
            m0 = sum(a * b for a, b in zip(w0, p0)) / t0; m1 = sum(a * b for a, b in zip(w1, p1)) / t1
            ck(abs(m1 - m0) <= 1e-9 * max(1.0, abs(m0), max(abs(v) for v in p0)), 'each measure keeps its weighted mean', measure=m, before=m0, after=m1)
    # (idempotence is not part of the property and does not hold: weight that has to be re-created for a measure whose whole mass was dead
    # is spread over the survivors, then gathered by the next application)
    obs.event('measure_constraints_applied')
    obs.nontrivial = bool(tracking) and bool(noweight) and any(set(i for p in tracking[m] for i in p) & noweight[m] for m in tracking if m in noweight)
    obs.notes = {'y': y}


def run_case(cls, idx, rng, obs):
    import warnings
    warnings.simplefilter('ignore')
    np.seterr(all='ignore')
    return {'detect_params': run_detect_params, 'detect_measures': run_detect_measures, 'solver': run_solver, 'mask_update': run_mask_update, 'impose_measure': run_impose_measure, 'condition_objects': run_condition_objects}[cls](rng, obs)
