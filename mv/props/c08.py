"""C08 - the optimisers implement their published algorithms.

Nelder-Mead and Powell are compared with independent reference implementations
(mv.refs.nelder_mead, mv.refs.powell with mystic's Brent; scipy.optimize.fmin as a second
opinion); every differential-evolution trial vector is judged against its strategy's
definition from the recorded random draws, and selection against strict improvement."""
import math, random as _random
import numpy as np
from .. import solverkit as K
from ..refs import nelder_mead as RNM, powell as RP

PROPERTY = 'C08'
LEVEL = 'exploration'
TECHNIQUE = 'differential monitoring against executable reference algorithms (Nelder-Mead, Powell) and a per-trial oracle for DE built from recorded random draws (strategy tap + RNG proxy)'
RULE = ('case = (objective, dimension 1-8, start incl. zeros, tolerances, limits, adaptive) for the local solvers; (strategy, CR, F, NP, seed, objective) '
        'for DE with every trial of every generation judged; non-trivial = local run with >= 10 iterations that used >= 3 kinds of move '
        '(reflect/expand/contract/shrink; extrapolation taken and not taken), DE run in which some trial had >= 1 mutated and >= 1 inherited component; '
        'distinct by canonical JSON')
ASSUMPTIONS = ['unconstrained, unbounded, finite objectives', 'Powell is compared given the same Brent line search (mystic._scipy060optimize.brent)',
               'Rand1Bin, RandToBest1Bin, Best2Bin, Rand2Bin may use either crossover rule (the pinned code uses the exponential one)',
               'the exponential rule is mystic\'s while-form: positions n, n+1, ... are mutated while draw < CR (possibly none)',
               'xopt/fopt compared with rel 1e-9, counts exactly']
CLASSES = {
    'nelder_mead': {'quick': 5280, 'thorough': 26400},
    'powell': {'quick': 2400, 'thorough': 12000},
    'de_trials': {'quick': 3840, 'thorough': 19200},
}
MIN_EVENTS = {'quick': {'assert:nm': 800, 'assert:powell': 300, 'trials_judged': 4000, 'assert:select': 500}}
CASE_TIMEOUT = 180
COSTS = ['sphere', 'illquad', 'rosen', 'abs', 'maxnorm', 'step']


def close(a, b, rel=1e-9):
    a, b = float(a), float(b)
    return a == b or abs(a - b) <= rel * max(abs(a), abs(b)) + 1e-12


def vclose(a, b, rel=1e-9):
    a = np.ravel(np.asarray(a, dtype=float)); b = np.ravel(np.asarray(b, dtype=float))
    return len(a) == len(b) and all(close(p, q, rel) for p, q in zip(a, b))


def run_nm(rng, obs):
    from mystic.solvers import fmin
    dim = rng.randint(1, 8)
    spec = K.gen_cost(rng, dim, COSTS)
    raw = K.make_cost(spec)
    x0 = [round(rng.uniform(-3, 3), 2) for _ in range(dim)]
    if rng.random() < 0.3: x0[rng.randrange(dim)] = 0.0       # zdelt path
    if rng.random() < 0.05: x0 = [0.0] * dim
    if rng.random() < 0.15:       # tiny but non-zero components are displaced relatively (x 1.05), only exact zeros get the absolute step
        x0[rng.randrange(dim)] = rng.choice([1e-9, -5e-9, 3e-12, 1e-8, -2e-7])
    xtol = rng.choice([1e-4, 1e-2, 1e-6]); ftol = rng.choice([1e-4, 1e-2, 1e-8])
    maxiter = rng.choice([None, None, 3, 17, 60]); maxfun = rng.choice([None, None, 10, 45, 150])
    if rng.random() < 0.12:
        # tolerances that are met with equality only: 0 (all vertices / values equal) and, on integer-valued terraces, a whole step
        ftol = rng.choice([0.0, 0.0, 1.0, 4.0]); xtol = rng.choice([xtol, 0.0, 0.5])
        if ftol and rng.random() < 0.8: spec = ['step', [round(rng.uniform(-1, 1), 2) for _ in range(dim)]]; raw = K.make_cost(spec)
        if maxiter is None: maxiter = rng.choice([120, 300])
    # (fmin documents that a falsy xtol selects another stop rule, VTRChangeOverGeneration(ftol): xtol = 0 is run through the class API with the rule given explicitly)
    class_api = xtol == 0.0
    adaptive = rng.random() < 0.3
    obs.desc = {'solver': 'nm', 'cost': spec, 'x0': x0, 'xtol': xtol, 'ftol': ftol, 'maxiter': maxiter, 'maxfun': maxfun, 'adaptive': adaptive}
    probe = K.CostProbe(raw)
    if not adaptive and not class_api:
        out = fmin(probe, list(x0), xtol=xtol, ftol=ftol, maxiter=maxiter, maxfun=maxfun, full_output=1, disp=0, retall=1)
        xm, fm, itm, fcm, wfm, vecs = out
    else:       # the scipy-style wrapper has no 'adaptive' switch: use the class API the wrapper is built on
        from mystic.solvers import NelderMeadSimplexSolver
        from mystic.termination import CandidateRelativeTolerance as CRT
        from mystic.monitors import Monitor
        sv = NelderMeadSimplexSolver(dim)
        sv.SetInitialPoints(list(x0)); sv.SetEvaluationLimits(maxiter, maxfun)
        mon = Monitor(); sv.SetGenerationMonitor(mon)
        sv.Solve(probe, termination=CRT(xtol, ftol), disp=0, **({'adaptive': True} if adaptive else {}))
        xm, fm, itm, fcm, vecs = sv.bestSolution, sv.bestEnergy, sv.generations, sv.evaluations, mon.x
        wfm = 1 if fcm >= sv._maxfun else (2 if itm >= sv._maxiter else 0)
    rawf = lambda x: raw([float(v) for v in x])      # same argument conversion as the probe (python floats: builtin sum is compensated)
    # zero entries of x0 are displaced by zdelt = 0.00025; mystic documents it as radius**2 * 0.1, which is 0.00025 to one ulp.
    # The reference is given the same one-ulp value so that the comparison stays exact; the published constant is asserted apart.
    zd = (0.05 ** 2) * 0.1
    obs.check(abs(zd - 0.00025) <= 1e-18, 'nm:zero-entry displacement is the published 0.00025 to rounding', observed=zd)
    xr, fr, itr, fcr, wfr, bests, moves = RNM.fmin(rawf, x0, xtol, ftol, maxiter, maxfun, adaptive, zdelt=zd)
    ctx = dict(case=obs.desc)
    obs.check(itm == itr, 'nm:same iteration count as the reference algorithm', observed=int(itm), expected=itr, **ctx)
    obs.check(fcm == fcr == probe.n, 'nm:same evaluation count as the reference algorithm', observed=int(fcm), expected=fcr, real=probe.n, **ctx)
    obs.check(vclose(xm, xr) and close(fm, fr), 'nm:same minimiser and minimum as the reference algorithm', observed=[list(map(float, xm)), float(fm)],
              expected=[list(map(float, xr)), fr], **ctx)
    obs.check(wfm == wfr, 'nm:same warnflag as the reference algorithm', observed=int(wfm), expected=wfr, **ctx)
    # per-iteration best vertex (allvecs[i] is the best after iteration i; index 0 is the initial point)
    if len(vecs) == len(bests) + 1:
        bad = [i for i, (v, (bx, bf)) in enumerate(zip(vecs[1:], bests)) if not vclose(v, bx)]
        obs.check(not bad, 'nm:per-iteration best vertex follows the reference simplex', first_bad=bad[:3], **ctx)
    else:
        obs.check(False, 'nm:per-iteration best vertex follows the reference simplex', len_allvecs=len(vecs), len_reference=len(bests), **ctx)
    try:
        import scipy.optimize as so
        sx, sf, sit, sfc, swf = so.fmin(rawf, x0, xtol=xtol, ftol=ftol, maxiter=maxiter, maxfun=maxfun, full_output=1, disp=0)[:5] if not adaptive else \
            (lambda r: (r.x, r.fun, r.nit, r.nfev, {True: 0}.get(r.success, 1 if r.nfev >= (maxfun or dim * 200) else 2)))(
                so.minimize(rawf, x0, method='Nelder-Mead', options={'xatol': xtol, 'fatol': ftol, 'maxiter': maxiter, 'maxfev': maxfun, 'adaptive': True}))
        # current scipy enforces maxfun exactly (it aborts mid-iteration); the algorithm it was adapted from, like mystic, tests the
        # evaluation limit only between iterations.  The second opinion is therefore taken only when that limit was not reached.
        if int(sfc) >= (maxfun if maxfun is not None else dim * 200) or int(fcm) >= (maxfun if maxfun is not None else dim * 200):
            obs.event('scipy_not_comparable_maxfun_hit')
            raise ImportError
        haszero = 0.0 in x0      # scipy displaces zero entries by exactly 0.00025, mystic by 0.00025 to one ulp: on kinked objectives the two
        if haszero:              # trajectories part company, so scipy is no second opinion there (the reference model, which is, still decides)
            obs.event('scipy_not_comparable_zero_start')
            raise ImportError
        obs.event('scipy_second_opinion')
        obs.check((haszero or (int(sit) == int(itm) and int(sfc) == int(fcm))) and vclose(sx, xm, 1e-6) and (close(sf, fm, 1e-6) or (haszero and abs(float(sf) - float(fm)) <= 1e-6 * (1 + abs(float(fm))))),
                  'nm:agrees with scipy.optimize.fmin (minimiser, minimum, iteration and evaluation counts)',
                  scipy=[list(map(float, np.ravel(sx))), float(sf), int(sit), int(sfc)], mystic=[list(map(float, xm)), float(fm), int(itm), int(fcm)], **ctx)
    except ImportError:
        pass
    obs.nontrivial = itr >= 10 and len(moves) >= 3
    obs.notes = {'iter': int(itm), 'funcalls': int(fcm), 'warnflag': int(wfm), 'moves': sorted(moves)}


def run_powell(rng, obs):
    from mystic.solvers import fmin_powell
    from mystic._scipy060optimize import brent
    dim = rng.randint(1, 6)
    spec = K.gen_cost(rng, dim, ['sphere', 'illquad', 'rosen', 'abs', 'maxnorm', 'step', 'plateau'])     # (plateaus: sweeps without progress, t == 0 in the extrapolation test)
    raw = K.make_cost(spec)
    x0 = [round(rng.uniform(-3, 3), 2) for _ in range(dim)]
    xtol = rng.choice([1e-4, 1e-2]); ftol = rng.choice([1e-4, 1e-2, 1e-8])
    maxiter = rng.choice([None, None, 2, 5]); maxfun = rng.choice([None, None, 60, 400])
    obs.desc = {'solver': 'powell', 'cost': spec, 'x0': x0, 'xtol': xtol, 'ftol': ftol, 'maxiter': maxiter, 'maxfun': maxfun}
    probe = K.CostProbe(raw)
    # the initial direction set: default (coordinate directions), or user-supplied - as floats, as python ints, as an integer array
    dk = rng.choice(['default', 'default', 'float', 'int_list', 'int_array', 'skew_int'])
    direc = None
    if dk == 'float': direc = [[(1.0 if i == j else 0.0) * rng.choice([1.0, 2.0, 0.5]) for j in range(dim)] for i in range(dim)]
    elif dk == 'int_list': direc = [[1 if i == j else 0 for j in range(dim)] for i in range(dim)]
    elif dk == 'int_array': direc = np.eye(dim, dtype=int)
    elif dk == 'skew_int': direc = [[1 if j <= i else 0 for j in range(dim)] for i in range(dim)]
    obs.desc['direc'] = dk
    dkw = {} if direc is None else {'direc': (direc.copy() if hasattr(direc, 'copy') else [list(r) for r in direc])}
    xm, fm, itm, fcm, wfm, dm = fmin_powell(probe, list(x0), xtol=xtol, ftol=ftol, maxiter=maxiter, maxfun=maxfun, full_output=1, disp=0, **dkw)[:6]
    rawf = lambda x: raw([float(v) for v in x])
    xr, fr, itr, fcr, wfr, dr, hist, taken = RP.fmin_powell(rawf, x0, brent, xtol, ftol, maxiter, maxfun, direc=None if direc is None else np.array(direc, dtype=float))
    ctx = dict(case=obs.desc)
    obs.check(int(itm) == itr, 'powell:same iteration count as the direction-set reference', observed=int(itm), expected=itr, **ctx)
    obs.check(int(fcm) == fcr == probe.n, 'powell:same evaluation count as the direction-set reference', observed=int(fcm), expected=fcr, real=probe.n, **ctx)
    obs.check(vclose(xm, xr, 1e-7) and close(fm, fr, 1e-7), 'powell:same minimiser and minimum as the reference', observed=[list(map(float, np.ravel(xm))), float(fm)],
              expected=[list(map(float, xr)), fr], **ctx)
    obs.check(vclose(dm, dr, 1e-7), 'powell:same final direction set as the reference', observed=np.asarray(dm).tolist(), expected=dr.tolist(), **ctx)
    obs.check(int(wfm) == wfr, 'powell:same warnflag as the reference', observed=int(wfm), expected=wfr, **ctx)
    obs.nontrivial = itr >= 3 and len(taken) == 2
    obs.notes = {'iter': int(itm), 'funcalls': int(fcm), 'branches': sorted(taken)}


# ------------------------------------------------------------------ DE
class RNGProxy(object):
    """stands in for the `random` module inside mystic.strategy: delegates to the real global stream and records every draw"""
    def __init__(self):
        self.log = []
    def sample(self, pop, k):
        r = _random.sample(pop, k); self.log.append(('sample', list(r))); return r
    def randrange(self, *a):
        r = _random.randrange(*a); self.log.append(('randrange', r)); return r
    def random(self):
        r = _random.random(); self.log.append(('random', r)); return r
    def __getattr__(self, name):
        return getattr(_random, name)


NEEDS = {'Best1': 2, 'Rand1': 3, 'RandToBest1': 2, 'Best2': 4, 'Rand2': 5}


def mutant(kind, j, parent, pop, best, r, F):
    if kind == 'Best1': return best[j] + F * (pop[r[0]][j] - pop[r[1]][j])
    if kind == 'Rand1': return pop[r[0]][j] + F * (pop[r[1]][j] - pop[r[2]][j])
    if kind == 'RandToBest1': return parent[j] + F * (best[j] - parent[j]) + F * (pop[r[0]][j] - pop[r[1]][j])
    if kind == 'Best2': return best[j] + F * (pop[r[0]][j] + pop[r[1]][j] - pop[r[2]][j] - pop[r[3]][j])
    if kind == 'Rand2': return pop[r[0]][j] + F * (pop[r[1]][j] + pop[r[2]][j] - pop[r[3]][j] - pop[r[4]][j])
    raise KeyError(kind)


def replay_exp(n, draws, CR, D):
    pos, L = [], 0
    for u in draws:
        if u >= CR or L == D: break
        pos.append((n + L) % D); L += 1
    return set(pos)


def replay_bin(n, draws, CR, D):
    return set(i for i in range(D) if i == n or (i < len(draws) and draws[i] < CR))


def judge_trials(obs, trials, strat, kind, rule, dim, NP, F, CR, sticky, which):
    mixed = False
    for k, tr in enumerate(trials):
        obs.event('trials_judged')
        d = tr['draws']
        ok_shape = len(d) >= 2 and d[0][0] == 'sample' and d[1][0] == 'randrange' and all(x[0] == 'random' for x in d[2:]) if rule == 'Exp' or strat != 'Best1Bin' else \
            (len(d) >= 2 and d[0][0] == 'sample' and d[1][0] == 'randrange')
        if not ok_shape:
            obs.check(False, 'de:random draws follow the strategy protocol', draws=[x[0] for x in d], strategy=strat); continue
        r, n = d[0][1], d[1][1]
        us = [x[1] for x in d[2:]]
        # the oracle uses the CONFIGURED crossover probability and scale; what the strategy saw must be those
        obs.check(tr['F'] == F and tr['CR'] == CR, 'de:the strategy runs with the configured CrossProbability and ScalingFactor', configured=[CR, F],
                  seen=[tr['CR'], tr['F']], sticky=sticky, strategy=strat, solver=which)
        tr = dict(tr, F=F, CR=CR)
        cand, parent = tr['cand'], tr['pop'][tr['cand']]
        obs.check(len(r) == NEEDS[kind] and len(set(r)) == len(r) and cand not in r and all(0 <= i < NP for i in r),
                  'de:the random members are distinct, in range and differ from the target', r=r, candidate=cand, NP=NP, strategy=strat)
        if len(r) != NEEDS[kind]: continue
        v = [mutant(kind, j, parent, tr['pop'], tr['best'], r, tr['F']) for j in range(dim)]
        t = tr['trial']
        mutated = set(j for j in range(dim) if t[j] != parent[j])
        comp_ok = all(t[j] == parent[j] or close(t[j], v[j], 1e-12) for j in range(dim))
        obs.check(comp_ok, 'de:every trial component is the parent\'s or base + F x difference as the strategy defines', strategy=strat, trial=t, parent=parent,
                  mutant=v, r=r, best=tr['best'], F=tr['F'], candidate=cand)
        e_set, b_set = replay_exp(n, us, tr['CR'], dim), replay_bin(n, us, tr['CR'], dim)
        # a mutated component may coincide with the parent's value (ties on plateaus / equal members): compare on positions that differ
        def matches(S):
            return mutated <= S and all(close(t[j], v[j], 1e-12) for j in S)
        if strat == 'Best1Bin': okc = matches(b_set)
        elif rule == 'Exp': okc = matches(e_set)
        else: okc = matches(e_set) or matches(b_set)
        obs.check(okc, 'de:mutated positions follow the crossover rule replayed from the recorded draws', strategy=strat, n=n, draws=us[:dim + 1], CR=tr['CR'],
                  mutated=sorted(mutated), exponential=sorted(e_set), binomial=sorted(b_set), trial=t, parent=parent)
        if 0 < len(mutated) < dim: mixed = True
    return mixed


def run_de(rng, obs):
    import mystic.strategy as ST
    from mystic.solvers import DifferentialEvolutionSolver, DifferentialEvolutionSolver2
    from mystic.termination import ChangeOverGeneration
    which = rng.choice(['de', 'de2'])
    dim = rng.randint(1, 6)
    strat = rng.choice(['Best1Bin', 'Best1Exp', 'Rand1Bin', 'Rand1Exp', 'RandToBest1Bin', 'RandToBest1Exp', 'Best2Bin', 'Best2Exp', 'Rand2Bin', 'Rand2Exp'])
    kind, rule = strat[:-3], strat[-3:]
    NP = max(rng.choice([4, 6, 9, 15]), NEEDS[kind] + 1 + (1 if kind != 'Best1' else 0), dim)
    NP = max(NP, NEEDS[kind] + 1)
    big = rng.random() < 0.08          # populations well beyond the usual few dozen (member indices past CPython's small-int cache included)
    if big: NP = rng.choice([40, 130, 260, 300, 520])
    CR = rng.choice([0.0, 0.0, 0.1, 0.5, 0.9, 1.0]); F = rng.choice([0.0, 0.3, 0.8, 0.8, 1.2])
    sticky = rng.random() < 0.4          # settings given with the first Step only: they are documented to persist
    spec = K.gen_cost(rng, dim, ['sphere', 'illquad', 'rosen', 'abs', 'step'])
    raw = K.make_cost(spec)
    gens = rng.randint(2, 3) if big else rng.randint(3, 12)
    obs.desc = {'solver': which, 'strategy': strat, 'dim': dim, 'NP': NP, 'CR': CR, 'F': F, 'cost': spec, 'generations': gens, 'sticky': sticky}
    probe = K.CostProbe(raw)
    s = (DifferentialEvolutionSolver if which == 'de' else DifferentialEvolutionSolver2)(dim, NP)
    NP = s.nPop
    s.SetRandomInitialPoints([-3.0] * dim, [3.0] * dim)
    s.SetEvaluationLimits(10 ** 6, 10 ** 9)
    s.SetTermination(ChangeOverGeneration(-1.0, 10 ** 6))
    s.SetObjective(probe)
    proxy = RNGProxy()
    trials = []
    real = getattr(ST, strat)
    wrapper = rng.random() < 0.2          # the one-liners diffev / diffev2: cross= and scale= (documented defaults 0.9 and 0.8) reach the strategy
    def tap(inst, candidate):
        before = len(proxy.log)
        pop = [[float(v) for v in m] for m in inst.population]
        best = [float(v) for v in inst.bestSolution]
        real(inst, candidate)
        t = inst.trialSolution[candidate] if inst._map_solver else inst.trialSolution
        trials.append({'cand': candidate, 'pop': pop, 'best': best, 'draws': proxy.log[before:], 'trial': [float(v) for v in t],
                       'F': float(inst.scale), 'CR': float(inst.probability)})
    tap.__name__ = strat
    old_random = ST.random
    ST.random = proxy
    setattr(ST, strat, tap)      # sticky settings remember the strategy by name and look it up in mystic.strategy
    mixed = False
    try:
        if wrapper:
            from mystic.solvers import diffev, diffev2
            kwd = {}
            use_default = rng.random() < 0.5
            if use_default: CR, F = 0.9, 0.8
            else: kwd = {'cross': CR, 'scale': F}
            obs.desc.update(wrapper=True, CR=CR, F=F, defaults=use_default)
            _random.seed(obs.seed); np.random.seed(obs.seed % (2 ** 32))
            (diffev if which == 'de' else diffev2)(probe, [(-3.0, 3.0)] * dim, npop=NP, maxiter=gens, maxfun=10 ** 6, ftol=-1.0, strategy=tap, disp=0, **kwd)
            obs.check(len(trials) >= NP, 'de:one trial and one evaluation per member and generation', trials=len(trials), calls=probe.n, **obs.desc)
            if judge_trials(obs, trials, strat, kind, rule, dim, NP, F, CR, 'wrapper', which): mixed = True
            gens = 0
        else:
            s.Step(strategy=tap, CrossProbability=CR, ScalingFactor=F)           # generation 0: evaluates the initial population
        for g in range(gens):
            pop0 = [[float(v) for v in m] for m in s.population]
            ene0 = [K.fnum(e) for e in s.popEnergy]
            n0 = probe.n
            del trials[:]
            if sticky: s.Step()
            else: s.Step(strategy=tap, CrossProbability=CR, ScalingFactor=F)
            calls = probe.calls[n0:]
            obs.check(len(trials) == NP and len(calls) == NP, 'de:one trial and one evaluation per member and generation', trials=len(trials), calls=len(calls), **obs.desc)
            if len(trials) != NP or len(calls) != NP:
                break
            if judge_trials(obs, trials, strat, kind, rule, dim, NP, F, CR, sticky, which): mixed = True
            # selection: a member is replaced only by a trial of strictly lower energy, and then equals that trial
            pop1 = [[float(v) for v in m] for m in s.population]
            ene1 = [K.fnum(e) for e in s.popEnergy]
            for k, tr in enumerate(trials):
                te = K.fnum(calls[k][1])
                if te < ene0[k]:
                    ok = pop1[k] == tr['trial'] and ene1[k] == te
                else:
                    ok = pop1[k] == pop0[k] and ene1[k] == ene0[k]
                obs.check(ok, 'select:a member is replaced iff its trial has strictly lower energy', member=k, trial_energy=te, old_energy=ene0[k], new_energy=ene1[k],
                          replaced=pop1[k] != pop0[k], strategy=strat, solver=which)
            be = min(ene1)
            obs.check(K.fnum(s.bestEnergy) == be, 'select:best energy is the population minimum', bestE=K.fnum(s.bestEnergy), min_pop=be)
    finally:
        ST.random = old_random
        setattr(ST, strat, real)
    obs.nontrivial = mixed
    obs.notes = {'cost_calls': probe.n}


def run_case(cls, idx, rng, obs):
    import warnings
    warnings.simplefilter('ignore')
    np.seterr(all='ignore')
    return {'nelder_mead': run_nm, 'powell': run_powell, 'de_trials': run_de}[cls](rng, obs)
