"""C01 - the reported optimum is a genuinely evaluated point with its true energy."""
import math
import numpy as np
from .. import solverkit as K, solvermon as M

PROPERTY = 'C01'
LEVEL = 'exploration'
TECHNIQUE = 'runtime monitoring: cost-call log + step-boundary invariants (membership of best among evaluated points, energy recomputation, per-member objective) over generated solver runs'
RULE = ('case = (solver, cost, dimension, start, box + tight/clip mode, constraint, penalty, reducer, limits); every public Step() '
        'boundary is checked; non-trivial = the best changed at least twice and, when constrained/boxed, at least one proposal was '
        'altered by the constraint or rejected by the box (counted by taps); distinct by canonical JSON of the case')
ASSUMPTIONS = ['constraints are deterministic, idempotent and map the box into itself (the property\'s precondition)',
               'configuration is fixed before the first Step (energies stored under an older configuration are not judged)',
               'in tight/clip range modes per-member energies are judged only on members that are fixed points of constraint and box',
               'array-valued costs return numpy arrays; reducer results compared with rel 1e-12, otherwise bit-exact']
CLASSES = {
    'class_api': {'quick': 10240, 'thorough': 51200},
    'wrappers': {'quick': 2560, 'thorough': 12800},
    'ensembles': {'quick': 1536, 'thorough': 7680},
}
MIN_EVENTS = {'quick': {'step_boundaries': 2500, 'assert:c01': 3000, 'members_judged': 5000, 'cost_calls': 20000}}
CASE_TIMEOUT = 120


def run_case(cls, idx, rng, obs):
    import warnings
    warnings.simplefilter('ignore')
    np.seterr(all='ignore')
    if cls == 'class_api':
        cfg = M.gen_cfg(rng, 'c01')
        obs.desc = cfg
        run = M.Run(cfg, obs, 'c01')
        with K.BoundsGuardTap() as tap:
            s, nchg, snaps = run.go()
        obs.event('box_rejections', tap.rejected)
        constrained = bool(cfg.get('box') or cfg.get('cons'))
        obs.nontrivial = nchg >= 2 and (not constrained or run.altered > 0 or tap.rejected > 0)
        obs.notes['box_rejections'] = tap.rejected
        return
    if cls == 'wrappers':
        return run_wrapper(rng, obs)
    return run_ensemble(rng, obs)


def run_wrapper(rng, obs, focus='c01'):
    """the scipy-style one-liners; focus c02 / c03: the bounds= / constraints= keywords are in force at every evaluation"""
    from mystic.solvers import fmin, fmin_powell, diffev, diffev2
    which = rng.choice(['fmin', 'fmin_powell', 'diffev', 'diffev2'])
    dim = rng.randint(1, 4)
    cost_spec = K.gen_cost(rng, dim, ['sphere', 'illquad', 'rosen', 'abs', 'step'])
    raw = K.make_cost(cost_spec)
    probe = K.CostProbe(raw)
    seen = set()
    probe.hooks.append(lambda seq, x: seen.add(tuple(x)))
    x0 = [round(rng.uniform(-3, 3), 2) for _ in range(dim)]
    if rng.random() < 0.15: x0 = [round(v * rng.choice([10.0, 40.0]), 1) for v in x0]      # far from the origin: relative steps exceed any rounding a constraint performs
    kw = {'disp': 0, 'full_output': 1, 'retall': 1}
    xargs = None
    if rng.random() < 0.25:          # args=: extra arguments for the cost, cost(x, *args)
        xargs = (rng.choice([0.5, -1.0, 3.0]),)
        raw0 = raw
        def with_args(x, *a):
            if a != xargs:
                obs.check(False, 'c01:the cost is called with the configured ExtraArgs', wrapper=which, received=[repr(v) for v in a], configured=list(xargs)); return raw0(x)
            return raw0(x) + a[0]
        probe.f = with_args; probe.always_args = True
        raw = lambda x: raw0(x) + xargs[0]
        kw['args'] = xargs; obs.event('cost_with_extra_args')
    box = None
    if rng.random() < (0.5 if focus != 'c02' else 1.0):
        box = K.gen_box(rng, dim, x0, shape='finite')
        kw['bounds'] = list(zip(box['lo'], box['hi']))
        # (cliprange=False re-draws exterior values at random - a non-deterministic constraint, outside the premises of C01/C03/C04: only C02 runs it)
        mode = rng.choice([(None, None), (None, None), (True, None), (False, None), (True, True), (None, True)] + ([(True, False), (None, False)] if focus == 'c02' else []))
        if mode[0] is not None: kw['tightrange'] = mode[0]
        if mode[1] is not None: kw['cliprange'] = mode[1]
    cons_spec = pen_spec = None
    if rng.random() < (0.4 if focus != 'c03' else 1.0):
        cons_spec = K.gen_constraint(rng, dim, box)
        kw['constraints'] = K.make_constraint(cons_spec, inplace=rng.random() < 0.5)
    bad_box, bad_cons = [], []
    refc = K.ref_constraint(cons_spec) if cons_spec else None
    def guard(seq, x):
        if box is not None and not K.in_box(x, box) and len(bad_box) < 3: bad_box.append([seq, list(x)])
        if refc is not None and refc(list(x)) != list(x) and len(bad_cons) < 3: bad_cons.append([seq, list(x)])
    probe.hooks.append(guard)
    if rng.random() < 0.4:
        pen_spec = K.gen_penalty(rng, dim)
        kw['penalty'] = K.make_penalty(pen_spec)
    kw['maxiter'] = rng.choice([None, 1, 2, 5, 30]); kw['maxfun'] = rng.choice([None, None, 10, 80])
    if which in ('diffev', 'diffev2'):
        kw['npop'] = rng.choice([4, 6, 10]); kw['maxiter'] = kw['maxiter'] or 40
        start = x0 if (rng.random() < 0.5 or not box) else list(zip(box['lo'], box['hi']))
    else:
        start = x0
    obs.desc = {'wrapper': which, 'dim': dim, 'cost': cost_spec, 'x0': start, 'box': box, 'cons': cons_spec, 'pen': pen_spec,
                'maxiter': kw['maxiter'], 'maxfun': kw['maxfun'], 'args': xargs, 'tightrange': kw.get('tightrange'), 'cliprange': kw.get('cliprange')}
    itermon = evalmon = None
    cb = []
    if focus == 'c04':
        from mystic.monitors import Monitor
        if rng.random() < 0.7: itermon = kw['itermon'] = Monitor()
        if rng.random() < 0.7: evalmon = kw['evalmon'] = Monitor()
        if rng.random() < 0.6: kw['callback'] = lambda x: cb.append([float(v) for v in np.ravel(x)])
        obs.desc.update(itermon=itermon is not None, evalmon=evalmon is not None, callback='callback' in kw)
    out = {'fmin': fmin, 'fmin_powell': fmin_powell, 'diffev': diffev, 'diffev2': diffev2}[which](probe, start, **kw)
    xopt, fopt = out[0], out[1]
    allvecs = out[-1]
    xl = [float(v) for v in np.atleast_1d(xopt)]
    if focus == 'c02':
        obs.check(not bad_box, 'c02:cost evaluated outside the strict ranges', wrapper=which, box=[box['lo'], box['hi']], first=bad_box, cons=cons_spec, through='bounds= keyword of the wrapper')
        if fopt is not None and math.isfinite(float(fopt)):
            obs.check(K.in_box(xl, box), 'c02:reported best (finite energy) lies inside the box', wrapper=which, best=xl, box=[box['lo'], box['hi']])
        obs.event('assert:c02')
    if focus == 'c03':
        obs.check(not bad_cons, 'c03:cost evaluated at a point violating the constraints', wrapper=which, cons=cons_spec, first=bad_cons, through='constraints= keyword of the wrapper')
        if fopt is not None and math.isfinite(float(fopt)):
            obs.check(refc(list(xl)) == xl, 'c03:reported solution satisfies the constraints', wrapper=which, best=xl, cons=cons_spec)
        obs.event('assert:c03')
    if focus == 'c04':
        it, fc = int(out[2]), int(out[3])
        obs.check(fc == probe.n, 'c04:evaluation counter equals the number of real cost calls', observed=fc, expected=probe.n, solver=which, inf_returns=0, evalmon_kind='plain' if evalmon is not None else 'none',
                  after='wrapper call')
        if evalmon is not None and which != 'diffev2':
            same = len(evalmon) == probe.n and all([float(v) for v in np.ravel(a)] == list(c[0]) and float(b) == float(c[1]) for a, b, c in zip(evalmon._x, evalmon._y, probe.calls))
            obs.check(same, 'c04:evaluation monitor holds exactly the real (x, cost) pairs in call order', observed_len=len(evalmon), expected_len=probe.n, swapped_while_live=False, after='wrapper call', solver=which)
        elif evalmon is not None:
            obs.check(len(evalmon) == probe.n, 'c04:evaluation monitor holds exactly the real (x, cost) pairs in call order', observed_len=len(evalmon), expected_len=probe.n, swapped_while_live=False,
                      after='wrapper call', solver=which)
        if itermon is not None and fopt is not None and math.isfinite(float(fopt)) and len(itermon):
            lastx, lasty = [float(v) for v in np.ravel(itermon._x[-1])], float(np.ravel(itermon._y[-1])[0])
            obs.check(lastx == xl and lasty == float(fopt), 'c04:step monitor of a stopped run ends in the reported result', last=[lastx, lasty], reported=[xl, float(fopt)], solver=which, after='wrapper call')
            ys = [float(np.ravel(v)[0]) for v in itermon._y]
            obs.check(all(b <= a for a, b in zip(ys, ys[1:])), 'c04:best-energy history is non-increasing', history=ys[:12], solver=which, after='wrapper call')
            obs.check(len(itermon) == it + 1, 'c04:step monitor holds one record per generation', records=len(itermon), generations=it, solver=which, after='wrapper call')
        if 'callback' in kw:
            obs.check(len(cb) == it + 1, 'c04:callback invoked exactly once per iteration', observed=len(cb), step=it + 1, note='the initial evaluation is an iteration of its own (generation 0)', solver=which, collapses_so_far=0, after='wrapper call')
            if cb and fopt is not None and math.isfinite(float(fopt)):
                obs.check(cb[-1] == xl, 'c04:callback receives the current best', got=cb[-1], best=xl, step=it, solver=which, collapses_so_far=0)
        obs.event('assert:c04', 3); obs.event('iterations', it); obs.event('api_calls', 1)
    refpen = K.ref_penalty(pen_spec)
    obs.event('cost_calls', probe.n)
    if fopt is not None and math.isfinite(float(fopt)) and kw.get('cliprange') is not False:
        obs.check(tuple(xl) in seen, 'c01:wrapper xopt is a point where the cost was actually called', wrapper=which, xopt=xl, fopt=float(fopt),
                  cons=cons_spec, box=box)
        fb = raw(xl) + refpen(xl)
        obs.check(M.feq(float(fopt), fb, 1e-13), 'c01:wrapper fopt equals cost+penalty at xopt', wrapper=which, xopt=xl, observed=float(fopt), expected=fb,
                  cons=cons_spec, pen=pen_spec)
        last = [float(v) for v in np.atleast_1d(allvecs[-1])] if len(allvecs) else None
        obs.check(last == xl, 'c01:allvecs ends with xopt', wrapper=which, last=last, xopt=xl, cons=cons_spec)
        obs.event('assert:c01')
    obs.nontrivial = probe.n > 3 * dim and len(allvecs) >= 3
    obs.notes = {'fopt': float(fopt), 'iter': int(out[2]), 'funcalls': int(out[3]), 'warnflag': int(out[4]), 'cost_calls': probe.n}


def run_ensemble(rng, obs):
    from mystic.solvers import lattice, buckshot, sparsity, LatticeSolver, BuckshotSolver, SparsitySolver
    from mystic.solvers import NelderMeadSimplexSolver, PowellDirectionalSolver, DifferentialEvolutionSolver, DifferentialEvolutionSolver2
    import mystic.termination as mt
    which = rng.choice(['lattice', 'buckshot', 'sparsity'])
    dim = rng.randint(1, 3)
    cost_spec = K.gen_cost(rng, dim, ['sphere', 'illquad', 'abs', 'rosen', 'plateau', 'step'])
    raw = K.make_cost(cost_spec)
    probe = K.CostProbe(raw)
    seen = set()
    probe.hooks.append(lambda seq, x: seen.add(tuple(x)))
    box = K.gen_box(rng, dim, None, shape='finite')
    if cost_spec[0] in ('plateau', 'step') and rng.random() < 0.7:      # several members reach exactly the same (often exactly zero) best energy
        box = {'lo': [round(c - 5.0, 2) for c in cost_spec[1]], 'hi': [round(c + 5.0, 2) for c in cost_spec[1]], 'shape': 'finite'}
    inner_name = rng.choice(['default', 'nm', 'powell', 'de', 'de2'])
    inner = {'nm': NelderMeadSimplexSolver, 'powell': PowellDirectionalSolver, 'de': DifferentialEvolutionSolver, 'de2': DifferentialEvolutionSolver2}.get(inner_name)
    api = rng.choice(['wrapper', 'class_solve', 'class_step'])
    maxiter = rng.choice([3, 10, 40]); maxfun = rng.choice([None, 200])
    pen_spec = K.gen_penalty(rng, dim) if rng.random() < 0.3 else None
    refpen = K.ref_penalty(pen_spec)
    n = rng.choice([2, 3, 4]) if which == 'lattice' else rng.choice([2, 4, 6])
    obs.desc = {'wrapper': which, 'api': api, 'nested': inner_name, 'dim': dim, 'cost': cost_spec, 'box': box, 'pen': pen_spec, 'maxiter': maxiter, 'n': n}

    def judge(where, xopt, fopt):
        xl = [float(v) for v in np.atleast_1d(xopt)]
        if not math.isfinite(float(fopt)): return
        obs.check(tuple(xl) in seen, 'c01:ensemble xopt is a point where the cost was actually called', wrapper=which, api=api, nested=inner_name, where=where,
                  xopt=xl, fopt=float(fopt))
        fb = raw(xl) + refpen(xl)
        obs.check(M.feq(float(fopt), fb, 1e-13), 'c01:ensemble fopt equals cost+penalty at xopt', wrapper=which, api=api, nested=inner_name, where=where, xopt=xl,
                  observed=float(fopt), expected=fb)
        obs.event('assert:c01')

    if api == 'wrapper':
        kw = {'disp': 0, 'full_output': 1, 'bounds': list(zip(box['lo'], box['hi'])), 'maxiter': maxiter, 'maxfun': maxfun}
        if pen_spec: kw['penalty'] = K.make_penalty(pen_spec)
        if inner is not None: kw['solver'] = inner
        fn = {'lattice': lattice, 'buckshot': buckshot, 'sparsity': sparsity}[which]
        out = fn(probe, dim, **({'nbins': n} if which == 'lattice' else {'npts': n}), **kw)
        judge('return', out[0], out[1])
        fopt = out[1]
    else:
        s = {'lattice': LatticeSolver, 'buckshot': BuckshotSolver, 'sparsity': SparsitySolver}[which](dim, n)
        if inner_name in ('nm', 'powell') and api == 'class_solve' and rng.random() < 0.3:
            # the nested solver as an INSTANCE that an earlier ensemble (another cost, other ranges) has used before: this ensemble's report
            # is about THIS cost all the same
            inst = inner(dim)
            other = K.make_cost(['sphere', [7.0] * dim])
            e0 = LatticeSolver(dim, 2); e0.SetNestedSolver(inst)
            e0.SetStrictRanges([v + 20.0 for v in box['lo']], [v + 20.0 for v in box['hi']]); e0.SetEvaluationLimits(3, None)
            e0.Solve(lambda x: other([float(v) for v in x]), disp=0)
            s.SetNestedSolver(inst)
            obs.desc['nested_instance_reused'] = True; obs.event('nested_instance_reused')
        elif inner is not None: s.SetNestedSolver(inner)
        s.SetStrictRanges(box['lo'], box['hi'])
        s.SetEvaluationLimits(maxiter, maxfun)
        s.SetTermination(mt.NormalizedChangeOverGeneration(1e-8, 10))
        if pen_spec: s.SetPenalty(K.make_penalty(pen_spec))
        if api == 'class_solve':
            s.Solve(probe, disp=0)
        else:
            s.SetObjective(probe)
            for i in range(rng.choice([2, 5, 12])):
                s.Step()
                judge('step %d' % (i + 1), s.bestSolution, s.bestEnergy)
                obs.event('ensemble_step_boundaries')
                if s.Terminated(): break
            s.Finalize()
        if obs.desc.get('nested_instance_reused'):
            obs.check(probe.n > 0 and math.isfinite(float(s.bestEnergy)), 'c01:ensemble xopt is a point where the cost was actually called', wrapper=which, api=api, nested=inner_name,
                      where='reused nested instance', xopt=[float(v) for v in np.atleast_1d(s.bestSolution)], fopt=float(s.bestEnergy), real_cost_calls=probe.n)
        judge('final', s.bestSolution, s.bestEnergy)
        judge('Solution()', s.Solution(), s.bestEnergy)
        fopt = s.bestEnergy
    obs.event('cost_calls', probe.n)
    obs.nontrivial = probe.n > 10
    obs.notes = {'fopt': float(fopt), 'cost_calls': probe.n}
