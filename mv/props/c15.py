"""C15 - penalty methods: zero on the feasible set, documented formula elsewhere, state
machine (iter / clear / store / stored / error) through nested penalties.

Random operation sequences are executed on the real mystic.penalty closures and on the
executable model mv.refs.penalty; every returned value is compared."""
import math
from ..refs import penalty as ref

PROPERTY = 'C15'
LEVEL = 'exploration'
TECHNIQUE = 'history + executable model: random op sequences on stacked penalty closures mirrored on a documented-formula state machine'
RULE = ('case = (stack of 1-3 penalty layers with generated type/condition/k/h, base function, op sequence over '
        '{call, error, iter(), iter(i), store, stored, iteration, clear}); non-trivial = the sequence evaluated the '
        'stack at a violating point and at a satisfying point and advanced the iteration state before a later call; '
        'distinct by canonical JSON of the case')
ASSUMPTIONS = ['k > 0, h > 0; violations are 0 exactly or >= 1e-6 in magnitude (no underflow of k*f^2)',
               'barrier_inequality and multiplier-carrying Lagrange types follow their documented formula; '
               '"zero on the feasible set / positive off it" is asserted only for the six types whose formula has that shape',
               'values compared with rel 1e-12 (association order of float additions may differ)']
CLASSES = {
    'sequence': {'quick': 54000, 'thorough': 540000},
    'adapters': {'quick': 10800, 'thorough': 108000},
}
MIN_EVENTS = {'quick': {'assert:value': 5000, 'assert:state': 3000, 'assert:feasible': 300, 'assert:adapter': 500}}
REL = 1e-12


def close(a, b, rel=REL):
    if a == b: return True
    if isinstance(a, float) and isinstance(b, float) and math.isnan(a) and math.isnan(b): return True
    try:
        return abs(a - b) <= rel * max(abs(a), abs(b))
    except Exception:
        return False


# conditions are described by JSON specs and compiled here (shared by mystic side and model side;
# they are the *input* of both, not part of either)
def make_cond(spec):
    kind = spec[0]
    if kind == 'pin':        # x[i] - c
        _, i, c = spec
        return lambda x: x[i] - c
    if kind == 'lin':        # a.x - b
        _, a, b = spec
        return lambda x: sum(ai * xi for ai, xi in zip(a, x)) - b
    if kind == 'tie':        # x[i] - x[j]
        _, i, j = spec
        return lambda x: x[i] - x[j]
    if kind == 'quad':       # sum x^2 - r
        _, r = spec
        return lambda x: sum(xi * xi for xi in x) - r
    if kind == 'ratio':      # 1/(x[i]-c) - d : ZeroDivisionError at x[i]==c
        _, i, c, d = spec
        return lambda x: 1.0 / (x[i] - c) - d
    raise KeyError(kind)


def gen_cond(rng, dim):
    r = rng.random()
    if r < 0.3: return ['pin', rng.randrange(dim), rng.choice([0.0, 1.0, -2.5, 0.75])]
    if r < 0.55: return ['lin', [rng.choice([-2.0, -1.0, 0.5, 1.0, 3.0]) for _ in range(dim)], rng.choice([0.0, 1.0, -3.0])]
    if r < 0.7 and dim > 1: return ['tie', 0, dim - 1]
    if r < 0.85: return ['quad', rng.choice([1.0, 4.0, 0.25])]
    return ['ratio', rng.randrange(dim), rng.choice([0.0, 1.0]), rng.choice([0.0, 2.0])]


def gen_point(rng, dim, conds):
    """points that satisfy / violate / zero-divide the conditions"""
    x = [rng.choice([-3.0, -1.0, 0.0, 0.5, 1.0, 2.0, 4.0]) + rng.choice([0.0, 0.0, 0.125, -0.25, 1e-3]) for _ in range(dim)]
    for c in conds:
        if rng.random() < 0.45:
            if c[0] == 'pin': x[c[1]] = c[2] if rng.random() < 0.7 else c[2] - rng.choice([0.5, 2.0])
            elif c[0] == 'tie': x[c[1]] = x[c[2]]
            elif c[0] == 'ratio' and rng.random() < 0.5: x[c[1]] = c[2]
            elif c[0] == 'quad': x = [0.0] * dim
    return x


def build_real(layers, base, levels=None):
    """levels (optional list) receives the function seen at every nesting level: levels[0] is the whole stack, levels[j] the stack from layer j down"""
    import mystic.penalty as mp
    f = base
    chain = []
    for ptype, cspec, k, h in reversed(layers):
        f = getattr(mp, ptype)(make_cond(cspec), k=k, h=h)(f)
        chain.append(f)
    if levels is not None: levels.extend(chain[::-1])
    return f


def build_model(layers, base):
    return ref.Stack([ref.Layer(p, make_cond(c), k, h) for p, c, k, h in layers], base)


def run_case(cls, idx, rng, obs):
    import warnings, numpy
    warnings.simplefilter('ignore')
    numpy.seterr(all='ignore')
    if cls == 'adapters':
        return run_adapters(rng, obs)
    dim = rng.randint(1, 4)
    depth = rng.randint(1, 3)
    layers = []
    for _ in range(depth):
        ptype = rng.choice(ref.TYPES)
        k = rng.choice([1, 20, 100, 0.5, 1e4])
        if ptype.startswith('uniform') and rng.random() < 0.5: k = float('inf')
        h = rng.choice([1, 2, 5, 1.5])
        layers.append([ptype, gen_cond(rng, dim), k, h])
    basek = rng.choice([0.0, 1.0, -2.0])
    base = lambda x: basek * sum(x) + (0.0 if basek else 0.0)
    levels = []
    real = build_real(layers, base, levels)
    model = build_model(layers, base)
    def pick_level():
        # most operations go through the whole stack; some address an inner layer directly (as a user holding the inner penalty does),
        # which leaves the layers with different iteration counts
        return 0 if (depth == 1 or rng.random() < 0.75) else rng.randrange(1, depth)
    desync = False
    conds = [l[1] for l in layers]
    nops = rng.randint(6, 24)
    ops = []
    held = [None, None]          # a report of stored() kept by the caller, and what it said when taken
    saw_violated = saw_satisfied = advanced_before_call = False
    advanced = False
    for _ in range(nops):
        r = rng.random()
        if r < 0.45:
            x = gen_point(rng, dim, conds)
            ops.append(['call', x])
            got = real(x)
            want = model.value_nested(x)
            obs.check(close(float(got), float(want)), 'value:penalty(x) equals the documented sum of per-layer terms',
                      layers=layers, n=model.iteration(), stored=[L.y for L in model.layers], x=x,
                      observed=got, expected=want)
            # feasibility shape for the types whose formula vanishes on the feasible set
            pfs = []
            for L in model.layers:
                try: pfs.append(L.cond(x))
                except ZeroDivisionError: pfs.append(None)
            if all(l[0] in ref.ZERO_ON_FEASIBLE for l in layers):
                if None in pfs:
                    obs.check(got == float('inf'), 'feasible:division by zero in a condition gives an infinite penalty',
                              layers=layers, x=x, observed=got)
                else:
                    viol = [L.violation(pf) for L, pf in zip(model.layers, pfs)]
                    if all(v == 0 for v in viol):
                        saw_satisfied = True
                        obs.check(got == base(x), 'feasible:no added penalty where every condition is satisfied',
                                  layers=layers, x=x, observed=got, expected=base(x))
                    elif all(v == 0 or v >= 1e-6 for v in viol):
                        saw_violated = True
                        obs.check(got > base(x), 'feasible:strictly positive added penalty where a condition is violated',
                                  layers=layers, x=x, observed=got, base=base(x), violations=viol)
            elif None in pfs and pfs[0] is None:
                obs.check(got == float('inf'), 'feasible:division by zero in the outer condition gives an infinite penalty',
                          layers=layers, x=x, observed=got)
            if advanced: advanced_before_call = True
        elif r < 0.58:
            x = gen_point(rng, dim, conds)
            ops.append(['error', x])
            got, want = real.error(x), model.error(x)
            obs.check(close(float(got), float(want)), 'value:error(x) is the root-sum-square violation magnitude',
                      layers=layers, x=x, observed=got, expected=want)
        elif r < 0.70:
            lv = pick_level()
            ops.append(['iter', None, lv])
            levels[lv].iter(); model.iter(level=lv); advanced = True
        elif r < 0.76:
            i = rng.randint(0, 4); lv = pick_level()
            ops.append(['iter', i, lv])
            levels[lv].iter(i); model.iter(i, level=lv); advanced = True
        elif r < 0.88:
            x = gen_point(rng, dim, conds)
            for _ in range(20):     # a multiplier stored at a zero-division point is inf: later values are inf-inf / 0*inf noise
                try:
                    [make_cond(c)(x) for c in conds]
                    break
                except ZeroDivisionError:
                    x = gen_point(rng, dim, conds)
            else:
                continue
            i = rng.choice([None, None, rng.randint(0, 4)]); lv = pick_level()
            ops.append(['store', x, i, lv])
            levels[lv].store(x, i); model.store(x, i, level=lv)
        elif r < 0.94:
            lv = pick_level() if rng.random() < 0.3 else 0
            ops.append(['clear', lv])
            levels[lv].clear(); model.clear(level=lv); advanced = False
        else:
            ops.append(['iteration'])
        # state observers after every op, on every nesting level
        if len(set(L.n for L in model.layers)) > 1: desync = True
        for lv in range(1, depth):
            obs.check(levels[lv].iteration() == model.iteration(lv), 'state:iteration() follows iter()/iter(i)/clear()',
                      layers=layers, ops=ops[-6:], observed=levels[lv].iteration(), expected=model.iteration(lv), level=lv)
        obs.check(real.iteration() == model.iteration(), 'state:iteration() follows iter()/iter(i)/clear()',
                  layers=layers, ops=ops[-6:], observed=real.iteration(), expected=model.iteration())
        got_s, want_s = real.stored(), model.stored()
        obs.check(len(got_s) == len(want_s) and all(close(float(a), float(b)) for a, b in zip(got_s, want_s)),
                  'state:stored() holds the stored condition values', layers=layers, ops=ops[-6:],
                  observed=got_s, expected=want_s)
        # what stored() hands out is a report, not the penalty's own history: later operations leave an earlier report alone, and a caller
        # editing its report does not edit the penalty
        if held[0] is not None:
            obs.check(list(held[0]) == held[1], 'state:a report handed out by stored() is not altered by later operations', layers=layers, ops=ops[-6:],
                      report_now=list(held[0]), report_when_taken=held[1])
            held[0] = None
        if isinstance(got_s, list) and rng.random() < 0.25:
            if rng.random() < 0.5:
                held[0], held[1] = got_s, list(got_s)
            else:
                got_s.append(123.0)
                if len(got_s) > 1: got_s[0] = -7.0
                again = real.stored()
                obs.check(len(again) == len(want_s) and all(close(float(a), float(b)) for a, b in zip(again, want_s)),
                          'state:stored() holds the stored condition values', layers=layers, ops=ops[-6:], observed=again, expected=want_s, after='the caller edited the list stored() had returned')
            obs.event('stored_report_aliasing_probes')
        # nested layers are reachable through the closure chain only via behaviour: probe with a fixed point
    obs.desc = {'layers': layers, 'base_k': basek, 'ops': ops}
    obs.nontrivial = saw_violated and saw_satisfied and advanced_before_call
    if desync: obs.event('stacks_with_different_layer_iterations')
    obs.notes = {'final_iteration': model.iteration(), 'final_stored': model.stored(), 'nops': len(ops), 'layer_iterations': [L.n for L in model.layers]}


def run_adapters(rng, obs):
    """coupler.additive / additive_proxy, constraints.with_penalty / as_penalty"""
    import mystic.penalty as mp
    from mystic.coupler import additive, additive_proxy
    from mystic.constraints import with_penalty, as_penalty
    dim = rng.randint(1, 4)
    ptype = rng.choice(ref.ZERO_ON_FEASIBLE)
    cspec = gen_cond(rng, dim)
    k = rng.choice([1, 20, 100]); h = rng.choice([2, 5])
    cond = make_cond(cspec)
    pen = with_penalty(getattr(mp, ptype), k=k, h=h)(cond)
    model = ref.Stack([ref.Layer(ptype, cond, k, h)], lambda x: 0.0)
    fk = rng.choice([1.0, -0.5, 3.0])
    f = lambda x: fk * sum(xi * xi for xi in x)
    added = additive(pen)(f)
    both = []
    for _ in range(6):
        x = gen_point(rng, dim, [cspec])
        if rng.random() < 0.3:
            pen.iter(); model.iter()
        want = model.value_nested(x)
        got = pen(x)
        obs.check(close(float(got), float(want)), 'adapter:with_penalty(ptype)(condition) is the documented penalty',
                  ptype=ptype, cond=cspec, x=x, observed=got, expected=want)
        obs.check(close(float(added(x)), f(x) + float(want)), 'adapter:additive(p)(f)(x) == f(x) + p(x)',
                  x=x, observed=added(x), expected=f(x) + want)
        both.append(want > 0)
    # as_penalty: distance between x and constraint(x)
    pin_i, pin_v = rng.randrange(dim), rng.choice([0.0, 1.5, -2.0])
    def cons(x):
        y = list(x); y[pin_i] = pin_v; return y
    ap = as_penalty(cons, k=k, h=h)
    for _ in range(3):
        x = gen_point(rng, dim, [['pin', pin_i, pin_v]])
        d = abs(x[pin_i] - pin_v)
        want = float(k) * d ** 2
        got = ap(x)
        obs.check(close(float(got), want, 1e-9), 'adapter:as_penalty(c) is k*|c(x)-x|^2 and 0 at fixed points of c',
                  x=x, pin=[pin_i, pin_v], observed=got, expected=want)
        both.append(d > 0)
    obs.desc = {'ptype': ptype, 'cond': cspec, 'k': k, 'h': h, 'fk': fk, 'pin': [pin_i, pin_v], 'dim': dim}
    obs.nontrivial = (True in both) and (False in both)
    obs.notes = {'violating_points': sum(both), 'points': len(both)}
