"""C18 - moment-imposing transforms hit their target and keep what they promise to keep;
definitions equal their textbook weighted formulas.

Post-conditions are evaluated with mv.refs.stats (pure-python, fsum based)."""
import math
import numpy as np
from ..refs import stats as R

PROPERTY = 'C18'
LEVEL = 'exploration'
TECHNIQUE = 'runtime contracts (post-conditions against independent textbook statistics) on generated weighted samples'
RULE = ('case = (transform or definition, sample vector, weight vector with zeros, target); non-trivial = weighted case with '
        '>= 1 zero and >= 2 distinct positive weights whose input missed the target by more than 1% (the transform had to move it), '
        'or for definitions a weighted/vector case with >= 3 distinct values; distinct by canonical JSON')
ASSUMPTIONS = ['inputs are restricted to where the operation is defined: non-degenerate variance/spread/mad, at least one positive '
               'weight kept, acyclic pair sets (i<j) for impose_collapse, weighted mean away from 0 only where a ratio is formed',
               'weighted median/mad/trimmed statistics have no single textbook form: their transforms are judged by mystic\'s own '
               'median/mad/tmean/tvariance on the output, the definitions against textbook values for unweighted samples only',
               'comparisons use rel 1e-9 (1e-7 for trimmed statistics)']
CLASSES = {
    'impose': {'quick': 43200, 'thorough': 432000},
    'support': {'quick': 21600, 'thorough': 216000},
    'robust': {'quick': 14400, 'thorough': 144000},
    'defs': {'quick': 28800, 'thorough': 288000},
    'metrics': {'quick': 13500, 'thorough': 135000},
    'inputs': {'quick': 14400, 'thorough': 144000},
}
MIN_EVENTS = {'quick': {'assert:target': 3000, 'assert:keeps': 3000, 'assert:def': 5000}}


def gen_samples(rng, n):
    base = rng.choice([0.0, 5.0, -20.0, 1000.0])
    sc = rng.choice([1.0, 0.01, 50.0])
    x = [base + sc * rng.uniform(-3, 3) for _ in range(n)]
    if rng.random() < 0.2: x[rng.randrange(n)] = x[0]
    return x


def gen_weights(rng, n, zeros=True):
    w = [rng.choice([0.1, 0.2, 0.5, 1.0, 2.0, 3.5]) for _ in range(n)]
    if zeros and n > 2:
        for i in rng.sample(range(n), rng.randint(1, max(1, n // 3))):
            w[i] = 0.0
    if sum(1 for v in w if v > 0) < 2:
        w[0], w[-1] = 1.0, 0.5
    return w


def weighted_nontrivial(w):
    pos = [v for v in w if v > 0]
    return (0.0 in w) and len(set(pos)) >= 2


def run_impose(rng, obs):
    import mystic.math.measures as mm
    n = rng.randint(2, 10)
    x = gen_samples(rng, n)
    weighted = rng.random() < 0.7
    w = gen_weights(rng, n) if weighted else None
    which = rng.choice(['impose_mean', 'impose_variance', 'impose_std', 'impose_spread', 'normalize', 'impose_sum',
                        'impose_weight_norm', 'impose_moment'])
    sup = R.support(x, w) if w else x
    # well-conditioned inputs only: the supported points must be spread by more than rounding noise relative to their magnitude
    # (two supported points 1e-5 apart at 1000 leave ~8 digits for any variance)
    if len(set(sup)) < 2 or R.spread(sup) < 1e-4 * max(1.0, max(abs(v) for v in sup)):
        x[0] += 1.0; x[-1] -= 2.0
        if w: w[0] = w[-1] = 1.0
    obs.desc = {'f': which, 'x': x, 'w': w}
    missed = False
    if which == 'impose_mean':
        t = rng.choice([0.0, 2.0, -7.5, 100.0])
        y = mm.impose_mean(t, list(x), w)
        obs.check(R.close(R.wmean(y, w), t), 'target:requested weighted mean reached', f=which, t=t, x=x, w=w, observed=R.wmean(y, w))
        obs.check(R.close(R.spread(y), R.spread(x)), 'keeps:impose_mean keeps the spread', f=which, x=x, y=list(y))
        obs.check(R.close(R.wvar(y, w), R.wvar(x, w), 1e-7), 'keeps:impose_mean keeps the variance', f=which, x=x, w=w)
        missed = abs(R.wmean(x, w) - t) > 0.01 * max(1.0, abs(t))
    elif which in ('impose_variance', 'impose_std'):
        t = rng.choice([1.0, 0.25, 9.0, 100.0])
        y = getattr(mm, which)(t, list(x), w)
        got = R.wvar(y, w) if which == 'impose_variance' else R.wstd(y, w)
        obs.check(R.close(got, t, 1e-8), 'target:requested weighted variance/std reached', f=which, t=t, x=x, w=w, observed=got)
        obs.check(R.close(R.wmean(y, w), R.wmean(x, w), 1e-9, 1e-9 * (1 + abs(R.wmean(x, w)))), 'keeps:variance/std keep the mean', f=which, x=x, w=w, y=list(y))
        before = R.wvar(x, w) if which == 'impose_variance' else R.wstd(x, w)
        missed = abs(before - t) > 0.01 * t
    elif which == 'impose_spread':
        t = rng.choice([1.0, 10.0, 0.5])
        y = mm.impose_spread(t, list(x), w)
        obs.check(R.close(R.spread(y), t), 'target:requested spread reached', f=which, t=t, x=x, observed=R.spread(y))
        obs.check(R.close(R.wmean(y, w), R.wmean(x, w), 1e-9, 1e-9 * (1 + abs(R.wmean(x, w)))), 'keeps:impose_spread keeps the mean', f=which, x=x, w=w, y=list(y))
        missed = abs(R.spread(x) - t) > 0.01 * t
    elif which in ('normalize', 'impose_sum'):
        ww = gen_weights(rng, n)
        t = rng.choice([1.0, 2.5, 10.0])
        lp = rng.choice([None, None, 'default', 'l1', 'l2', 'l3']) if which == 'normalize' else None
        if lp:       # mass given as 'lN' (default 'l2'): the L-N norm of the result is 1
            y = mm.normalize(list(ww)) if lp == 'default' else mm.normalize(list(ww), lp)
            pn = 2 if lp == 'default' else int(lp[1:])
            t = R.lnorm(ww, pn)                      # (for the 'missed' bookkeeping below)
            obs.desc['w'] = ww; obs.desc['mass'] = lp
            obs.check(R.close(R.lnorm(y, pn), 1.0), 'target:requested total reached', f=which, mass=lp, w=ww, observed=R.lnorm(y, pn), y=list(y))
            t = R.wsum(y)
        elif rng.random() < 0.2 and n >= 2 and abs(sum(ww[:-1])) > 1e-9:
            # a total of exactly zero, reached with the documented counterbalance (zsum=True; zmass scales the members)
            zm = rng.choice([None, 1.0, 2.0, 0.5])
            kw = {'zsum': True}
            if zm is not None: kw['zmass'] = zm
            y = mm.normalize(list(ww), 0.0, **kw) if which == 'normalize' else mm.impose_sum(0.0, list(ww), **kw)
            obs.desc.update(w=ww, mass=0.0, zsum=True, zmass=zm); obs.event('zero_total_counterbalanced')
            scale_ = sum(abs(v) for v in y) or 1.0
            obs.check(len(y) == n and abs(R.wsum(y)) <= 1e-12 * scale_, 'target:requested total reached', f=which, t=0.0, w=ww, observed=R.wsum(y), y=list(y), zsum=True, zmass=zm)
            fac = [a / b for a, b in zip(y[:-1], ww[:-1]) if b != 0]
            obs.check(all(R.close(f_, fac[0]) for f_ in fac) and all((a == 0) == (b == 0) for a, b in zip(y[:-1], ww[:-1])),
                      'keeps:normalisation rescales every weight by the same factor', f=which, w=ww, y=list(y), zsum=True, zmass=zm, note='all members but the counterbalancing one')
            if zm is not None and fac:
                y1 = mm.normalize(list(ww), 0.0, zsum=True, zmass=1.0)
                obs.check(all(R.close(a, zm * b) for a, b in zip(y, y1)), 'keeps:zmass scales the members of a zero-total result', f=which, w=ww, zmass=zm, y=list(y), unit=list(y1))
            obs.desc['t'] = 0.0
            obs.nontrivial = True
            obs.notes = {'missed_before': True}
            return
        else:
            zkw = {}
            if rng.random() < 0.3: zkw = {'zsum': rng.choice([True, False]), 'zmass': rng.choice([1.0, 3.0])}     # documented to matter only for a zero total
            y = mm.normalize(list(ww), t, **zkw) if which == 'normalize' else mm.impose_sum(t, list(ww), **zkw)
            obs.desc['zero_total_options'] = zkw
        obs.desc['w'] = ww
        obs.check(R.close(R.wsum(y), t), 'target:requested total reached', f=which, t=t, w=ww, observed=R.wsum(y))
        k = R.wsum(y) / R.wsum(ww)
        obs.check(all(R.close(a, b * k) for a, b in zip(y, ww)), 'keeps:normalisation rescales every weight by the same factor',
                  f=which, w=ww, y=list(y))
        obs.check(all((a == 0) == (b == 0) for a, b in zip(y, ww)), 'keeps:zero weights stay zero', f=which, w=ww, y=list(y))
        missed = abs(R.wsum(ww) - t) > 0.01 * t
        w = ww
    elif which == 'impose_weight_norm':
        ww = gen_weights(rng, n)
        t = rng.choice([1.0, 3.0])
        ys, yw = mm.impose_weight_norm(list(x), list(ww), t)
        obs.desc['w'] = ww
        obs.check(R.close(R.wsum(yw), t), 'target:requested total weight reached', f=which, t=t, observed=R.wsum(yw))
        obs.check(R.close(R.wmean(ys, yw), R.wmean(x, ww), 1e-9, 1e-9 * (1 + abs(R.wmean(x, ww)))), 'keeps:impose_weight_norm keeps the weighted mean', f=which, x=x, w=ww)
        missed = abs(R.wsum(ww) - t) > 0.01 * t
        w = ww
    else:
        order = rng.choice([2, 2, 4, 3, 5, 0, 1])
        t = rng.choice([1.0, 5.0, 0.3]) * (rng.choice([1.0, -1.0]) if order % 2 or rng.random() < 0.15 else 1.0)
        skew = rng.choice([None, None, False, True])
        kw = {} if skew is None else {'skew': skew}
        obs.desc['order'] = order; obs.desc['skew'] = skew
        if order in (0, 1):
            # documented degenerate orders: the 0th central moment is 1 and the 1st is 0 - asking for exactly that leaves the points alone, anything else has no answer
            t = rng.choice([1.0, 0.0, 2.0])
            y = mm.impose_moment(t, list(x), w, order=order, **kw)
            possible = (t == 1.0) if order == 0 else (t == 0.0)
            obs.check(([float(v) for v in y] == [float(v) for v in x]) if possible else all(v != v for v in y),
                      'target:requested central moment reached', f=which, order=order, t=t, x=x, w=w, observed=[float(v) for v in y][:4], degenerate_order=True)
            missed = False
        elif order % 2 == 0 and t < 0:
            y = mm.impose_moment(t, list(x), w, order=order, **kw)
            obs.check(all(v != v for v in y), 'target:requested central moment reached', f=which, order=order, t=t, x=x, w=w, observed=[float(v) for v in y][:4],
                      impossible_target=True)
            missed = False
        else:
            # (odd orders: the source must have a decidedly non-zero odd moment to be rescaled; skew squares the points first)
            src = [v * v for v in x] if (skew or (skew is None and order % 2)) else list(x)
            sm = R.wmoment(src, w, order)
            scale_ = max(abs(v - R.wmean(src, w)) for v in src) ** order
            if abs(sm) <= 1e-6 * scale_:
                obs.skip('source moment vanishes'); return
            y = mm.impose_moment(t, list(x), w, order=order, **kw)
            got = R.wmoment(y, w, order)
            obs.check(R.close(got, t, 1e-7), 'target:requested central moment reached', f=which, order=order, t=t, x=x, w=w, observed=got, skew=skew)
            obs.check(R.close(R.wmean(y, w), R.wmean(x, w), 1e-9, 1e-8 * (1 + abs(R.wmean(x, w)))), 'keeps:impose_moment keeps the mean', f=which, x=x, w=w, order=order, skew=skew)
            missed = abs(R.wmoment(x, w, order) - t) > 0.01 * abs(t)
    obs.desc['t'] = t
    obs.nontrivial = missed and (w is not None and weighted_nontrivial(w))
    obs.notes = {'missed_before': missed}


def run_support(rng, obs):
    import mystic.math.measures as mm
    n = rng.randint(3, 9)
    x = gen_samples(rng, n)
    w = gen_weights(rng, n, zeros=rng.random() < 0.5)
    which = rng.choice(['impose_support', 'impose_unweighted', 'impose_collapse'])
    obs.desc = {'f': which, 'x': x, 'w': w}
    tot, m = R.wsum(w), R.wmean(x, w)
    if which in ('impose_support', 'impose_unweighted'):
        k = rng.randint(1, n - 1)
        idx = rng.sample(range(n), k)
        if rng.random() < 0.3: idx = [i - n for i in idx]       # negative indexing is documented
        norm = set(i % n for i in idx)
        keep = norm if which == 'impose_support' else set(range(n)) - norm
        revive = which == 'impose_unweighted' and rng.random() < 0.2
        if revive:
            # every weight that is to stay is zero already: with nullable=False the mass is re-created evenly on the entries that stay
            for i in keep: w[i] = 0.0
            if not any(w[i] > 0 for i in norm): w[next(iter(norm))] = 0.6
            tot, m = R.wsum(w), R.wmean(x, w); obs.desc['w'] = w
            ys, yw = mm.impose_unweighted(list(idx), list(x), list(w), nullable=False)
            obs.desc.update(index=idx, nullable=False); obs.event('nullable_false_revival')
            obs.check(all(yw[i] == 0 for i in norm), 'target:exactly the designated weights are zero', f=which, index=idx, w=w, yw=list(yw), nullable=False)
            obs.check(all(yw[i] > 0 and R.close(yw[i], tot / len(keep)) for i in keep), 'keeps:nullable=False re-creates the weight evenly on the entries that stay', f=which, index=idx, w=w, yw=list(yw))
            obs.check(R.close(R.wsum(yw), tot), 'keeps:total weight preserved', f=which, before=tot, after=R.wsum(yw), nullable=False)
            obs.check(R.close(R.wmean(ys, yw), m, 1e-9, 1e-9 * (1 + abs(m))), 'keeps:weighted mean preserved', f=which, before=m, after=R.wmean(ys, yw), x=x, w=w, nullable=False)
            obs.nontrivial = True
            return
        if not any(w[i] > 0 for i in keep):
            j = next(iter(keep)); w[j] = 0.7; tot, m = R.wsum(w), R.wmean(x, w); obs.desc['w'] = w
        nkw = {'nullable': rng.choice([True, False])} if which == 'impose_unweighted' and rng.random() < 0.3 else {}     # inert while a kept weight is positive
        ys, yw = getattr(mm, which)(list(idx), list(x), list(w), **nkw)
        obs.desc['index'] = idx; obs.desc['options'] = nkw
        obs.check(all(yw[i] == 0 for i in range(n) if i not in keep), 'target:exactly the designated weights are zero',
                  f=which, index=idx, w=w, yw=list(yw))
        obs.check(all((yw[i] > 0) == (w[i] > 0) for i in keep), 'keeps:kept weights stay positive (zero stays zero)', f=which, index=idx, w=w, yw=list(yw))
        moved = any(w[i] > 0 for i in range(n) if i not in keep)
    else:
        nodes = list(range(n))
        pairs = set()
        for _ in range(rng.randint(1, 3)):
            i, j = sorted(rng.sample(nodes, 2)); pairs.add((i, j))
        given = set(pairs)
        if rng.random() < 0.35:      # negative indexing is allowed: the same point may be written -1 in one pair and n-1 in another
            given = set(tuple((v - n) if rng.random() < 0.5 else v for v in p_) for p_ in pairs)
        ys, yw = mm.impose_collapse(set(given), list(x), list(w))
        obs.desc['pairs'] = sorted(pairs); obs.desc['pairs_as_given'] = sorted(given)
        # connected groups: one member keeps the group's total weight, the others are zero and share its position
        parent = list(range(n))
        def find(i):
            while parent[i] != i: i = parent[i]
            return i
        for a, b in pairs: parent[find(a)] = find(b)
        groups = {}
        for i in range(n): groups.setdefault(find(i), []).append(i)
        ok_w = ok_x = True
        for g in groups.values():
            if len(g) == 1:
                ok_w &= R.close(yw[g[0]], w[g[0]])
                continue
            nz = [i for i in g if yw[i] != 0]
            gw = R.wsum(w[i] for i in g)
            ok_w &= (len(nz) <= 1) and R.close(R.wsum(yw[i] for i in g), gw)
            ok_x &= len(set(ys[i] for i in g)) == 1
        obs.check(ok_w, 'target:each collapsed group keeps its total weight on one member, the others are zero', f=which,
                  pairs=sorted(pairs), w=w, yw=list(yw))
        obs.check(ok_x, 'target:collapsed members share one position', f=which, pairs=sorted(pairs), x=x, ys=list(ys))
        moved = True
    obs.check(R.close(R.wsum(yw), tot), 'keeps:total weight preserved', f=which, before=tot, after=R.wsum(yw))
    obs.check(R.close(R.wmean(ys, yw), m, 1e-9, 1e-9 * (1 + abs(m))), 'keeps:weighted mean preserved', f=which, before=m, after=R.wmean(ys, yw), x=x, w=w)
    obs.nontrivial = moved and len(set(v for v in w if v > 0)) >= 2
    obs.notes = {'yw': list(yw)}


def run_robust(rng, obs):
    import mystic.math.measures as mm
    n = rng.randint(3, 12)
    x = gen_samples(rng, n)
    if len(set(x)) < n: x = [v + 0.001 * i for i, v in enumerate(x)]
    weighted = rng.random() < 0.5
    w = [rng.choice([0.5, 1.0, 2.0]) for _ in range(n)] if weighted else None
    which = rng.choice(['impose_median', 'impose_mad', 'impose_tmean', 'impose_tvariance', 'impose_tstd'])
    if which == 'impose_mad' and weighted and n % 2 == 0:
        # mystic's weighted median of an even-sized sample is the midpoint of two points, whose absolute deviations then tie
        # exactly; which of the tied deviations sorts first (and so which weight counts) is decided by rounding: not a defined input
        x = x[:-1]; w = w[:-1]; n -= 1
    obs.desc = {'f': which, 'x': x, 'w': w}
    t = rng.choice([1.0, 4.0, 0.5]) if which != 'impose_median' and which != 'impose_tmean' else rng.choice([0.0, -3.0, 12.0])
    obs.desc['t'] = t
    rel = 1e-7
    if which == 'impose_median':
        y = mm.impose_median(t, list(x), w)
        obs.check(R.close(float(mm.median(y, w)), t, rel, 1e-9), 'target:requested median reached', f=which, t=t, x=x, w=w, observed=float(mm.median(y, w)))
        obs.check(R.close(R.spread(y), R.spread(x)), 'keeps:impose_median keeps the spread', f=which)
        if not weighted:
            obs.check(R.close(R.median(y), t, rel, 1e-9), 'target:textbook median of the result is the target', f=which, t=t, y=list(y))
        missed = abs(float(mm.median(x, w)) - t) > 0.01 * max(1, abs(t))
    elif which == 'impose_mad':
        if float(mm.mad(x, w)) == 0:
            obs.skip('degenerate mad'); return
        y = mm.impose_mad(t, list(x), w)
        obs.check(R.close(float(mm.mad(y, w)), t, rel), 'target:requested median absolute deviation reached', f=which, t=t, x=x, w=w, observed=float(mm.mad(y, w)))
        obs.check(R.close(float(mm.median(y, w)), float(mm.median(x, w)), rel, 1e-9 * (1 + abs(x[0]))), 'keeps:impose_mad keeps the median', f=which, x=x, w=w)
        missed = abs(float(mm.mad(x, w)) - t) > 0.01 * t
    else:
        k = rng.choice([0, 10, 20, (10, 20)])
        clip = rng.choice([False, True])
        # trimming is only well defined (continuous in the data) when a whole number of equally weighted points is cut:
        # weighted samples are trimmed with k=0, unweighted ones with k*n/100 integral
        if weighted: k = 0
        else:
            ks = k if isinstance(k, tuple) else (k, k)
            if any((kk * n) % 100 for kk in ks): k = 0 if n % 5 else 20
        obs.desc.update({'k': k, 'clip': clip})
        if which == 'impose_tmean':
            y = mm.impose_tmean(t, list(x), w, k=k, clip=clip)
            obs.check(R.close(float(mm.tmean(y, w, k=k, clip=clip)), t, rel, 1e-9), 'target:requested trimmed mean reached', f=which, t=t, k=k, clip=clip, x=x, w=w)
            obs.check(R.close(R.spread(y), R.spread(x)), 'keeps:impose_tmean keeps the spread', f=which)
            missed = abs(float(mm.tmean(x, w, k=k, clip=clip)) - t) > 0.01 * max(1, abs(t))
        else:
            tv0 = float(mm.tvariance(x, w, k=k, clip=clip))
            if not tv0 > 0:
                obs.skip('degenerate trimmed variance'); return
            y = getattr(mm, which)(t, list(x), w, k=k, clip=clip)
            got = float(mm.tvariance(y, w, k=k, clip=clip))
            if which == 'impose_tstd': got = math.sqrt(got)
            obs.check(R.close(got, t, rel), 'target:requested trimmed variance/std reached', f=which, t=t, k=k, clip=clip, x=x, w=w, observed=got)
            obs.check(R.close(float(mm.tmean(y, w, k=k, clip=clip)), float(mm.tmean(x, w, k=k, clip=clip)), rel, 1e-9 * (1 + abs(x[0]))),
                      'keeps:trimmed variance/std keep the trimmed mean', f=which, k=k, clip=clip, x=x, w=w)
            before = tv0 if which == 'impose_tvariance' else math.sqrt(tv0)
            missed = abs(before - t) > 0.01 * t
    obs.nontrivial = missed and (weighted or which.startswith('impose_t'))
    obs.notes = {'missed_before': missed}


def run_defs(rng, obs):
    import mystic.math.measures as mm
    import mystic.math.distance as md
    from mystic.math import almostEqual, tolerance
    n = rng.randint(2, 10)
    x = gen_samples(rng, n)
    w = gen_weights(rng, n) if rng.random() < 0.7 else None
    obs.desc = {'x': x, 'w': w}
    ck = lambda ok, what, **kw: obs.check(ok, 'def:' + what, x=x, w=w, **kw)
    ck(R.close(mm.mean(list(x), w), R.wmean(x, w)), 'mean is the weighted arithmetic mean', observed=mm.mean(list(x), w), expected=R.wmean(x, w))
    ck(R.close(mm.variance(list(x), w), R.wvar(x, w), 1e-8), 'variance is the weighted second central moment (no Bessel correction)',
       observed=mm.variance(list(x), w), expected=R.wvar(x, w))
    ck(R.close(float(mm.std(list(x), w)), R.wstd(x, w), 1e-8), 'std is sqrt(variance)')
    for order in (0, 1, 3, 4):
        exp = 1.0 if order == 0 else (0.0 if order == 1 else R.wmoment(x, w, order))
        ck(R.close(mm.moment(list(x), w, order=order), exp, 1e-8, 1e-9 * (1 + abs(exp))), 'moment is the weighted central moment of the given order', order=order,
           observed=mm.moment(list(x), w, order=order), expected=exp)
    ck(R.close(mm.spread(list(x)), R.spread(x)), 'spread is max-min')
    # expectation & ess_* on vector-valued sample points
    pts = [[v, rng.uniform(-1, 1)] for v in x]
    a, b = rng.choice([1.0, -2.0]), rng.choice([0.0, 3.0])
    f = lambda p: a * p[0] + b * p[1] ** 2
    fy = [f(p) for p in pts]
    ck(R.close(mm.expectation(f, pts, w), R.wmean(fy, w)), 'expectation is the weighted mean of f over the points',
       observed=mm.expectation(f, pts, w), expected=R.wmean(fy, w))
    ck(R.close(mm.expected_variance(f, pts, w), R.wvar(fy, w), 1e-8), 'expected_variance is the weighted variance of f')
    ck(R.close(float(mm.expected_std(f, pts, w)), R.wstd(fy, w), 1e-8), 'expected_std is the weighted std of f')
    if w:
        # tol: a WEIGHT threshold - points whose weight is <= tol are left out (and nothing else is rounded)
        tolw = rng.choice([0.15, 0.3, 1.0])
        keep = [i for i, ww in enumerate(w) if abs(ww) > tolw]
        if len(keep) >= 2:
            fk, wk = [fy[i] for i in keep], [w[i] for i in keep]
            sc_ = rng.choice([1.0, 1e-3])          # (also functions whose values - and moments - are small compared with tol)
            g = lambda p: sc_ * f(p)
            gk = [sc_ * v for v in fk]
            ck(R.close(mm.expectation(g, pts, w, tol=tolw), R.wmean(gk, wk)), 'expectation is the weighted mean of f over the points', tol=tolw, scale=sc_,
               observed=mm.expectation(g, pts, w, tol=tolw), expected=R.wmean(gk, wk))
            ck(R.close(mm.expected_variance(g, pts, w, tol=tolw), R.wvar(gk, wk), 1e-8), 'expected_variance is the weighted variance of f', tol=tolw, scale=sc_,
               observed=mm.expected_variance(g, pts, w, tol=tolw), expected=R.wvar(gk, wk))
            ck(R.close(float(mm.expected_std(g, pts, w, tol=tolw)), R.wstd(gk, wk), 1e-8), 'expected_std is the weighted std of f', tol=tolw, scale=sc_)
    sy = [v for v, ww in zip(fy, w) if ww > 0] if w else fy
    ck(mm.ess_maximum(f, pts, w) == max(sy), 'ess_maximum is the max of f over points of positive weight', observed=mm.ess_maximum(f, pts, w), expected=max(sy))
    ck(mm.ess_minimum(f, pts, w) == min(sy), 'ess_minimum is the min of f over points of positive weight', observed=mm.ess_minimum(f, pts, w), expected=min(sy))
    ck(R.close(mm.ess_ptp(f, pts, w), max(sy) - min(sy)), 'ess_ptp is max-min of f over the support')
    ck(mm.maximum(f, pts) == max(fy) and mm.minimum(f, pts) == min(fy) and R.close(mm.ptp(f, pts), max(fy) - min(fy)), 'maximum/minimum/ptp over all points')
    if w:
        ck(mm.support_index(w) == [i for i, v in enumerate(w) if v > 0] and mm.support(list(x), w) == R.support(x, w), 'support lists the points of positive weight')
    else:
        ck(R.close(float(mm.median(list(x))), R.median(x)), 'median (unweighted) is the textbook median', observed=float(mm.median(list(x))), expected=R.median(x))
        ck(R.close(float(mm.mad(list(x))), R.mad(x), 1e-9, 1e-12), 'mad (unweighted) is the median absolute deviation')
        if n in (5, 10):
            tr = R.trimmed(x, 20)
            ck(R.close(float(mm.tmean(list(x), k=20)), R.wmean(tr), 1e-7), 'tmean (unweighted, whole count) is the mean after trimming k% from each end',
               observed=float(mm.tmean(list(x), k=20)), expected=R.wmean(tr))
    # norms and distances
    v = [rng.choice([0.0, 1.0, -2.5, 3.0, 0.5]) * rng.choice([1, 1, 10]) for _ in range(n)]
    u = [rng.choice([0.0, 1.0, -2.5, 3.0, 0.5]) for _ in range(n)]
    for p in (0, 1, 2, 3, math.inf):
        ck(R.close(float(md.Lnorm(v, p)), R.lnorm(v, p)), 'Lnorm is (sum |w|^p)^(1/p) (count of non-zeros for p=0, max for p=inf)', p=p, v=v,
           observed=float(md.Lnorm(v, p)), expected=R.lnorm(v, p))
    # integer-typed weights (python ints / an integer array) of some size and a higher order: the definition is over the reals, whatever the dtype handed in
    vi = [rng.choice([0, 1, -2, 3, 7]) * rng.choice([1, 100, 1000]) for _ in range(n)]
    for p in (2, 3, 6, 8):
        arg = list(vi) if rng.random() < 0.5 else np.array(vi, dtype=int)
        want_ = R.lnorm([float(t) for t in vi], p)
        ck(R.close(float(md.Lnorm(arg, p)), want_), 'Lnorm is (sum |w|^p)^(1/p) (count of non-zeros for p=0, max for p=inf)', p=p, v=vi, integer_typed=True,
           observed=float(md.Lnorm(arg, p)), expected=want_)
    dd = {'chebyshev': math.inf, 'hamming': 0, 'euclidean': 2, 'manhattan': 1}
    for name, p in dd.items():
        got = float(getattr(md, name)(v, u, pair=True))
        ck(R.close(got, R.dist(v, u, p)), 'point-to-point distance equals its textbook definition', metric=name, v=v, u=u, observed=got, expected=R.dist(v, u, p))
    got = float(md.minkowski(v, u, pair=True, p=3))
    ck(R.close(got, R.dist(v, u, 3)), 'minkowski distance is the p-norm of the difference', v=v, u=u, observed=got, expected=R.dist(v, u, 3))
    V = np.array([v, u, [a_ + 1 for a_ in v]]); U = np.array([u, u, v])
    got = md.euclidean(V, U, pair=True, axis=1)
    ck(all(R.close(float(g), R.dist(r1, r2, 2)) for g, r1, r2 in zip(got, V.tolist(), U.tolist())), 'pairwise row distances with pair=True, axis=1')
    # approx helpers
    xx, t, r = rng.choice([0.0, 1.0, -5e6, 3e-9]), 1e-15, 1e-15
    ck(tolerance(xx) == t + abs(xx) * r, 'tolerance(x) is tol + |x|*rel')
    for aa, bb in ((1.0, 1.0 + 5e-8), (1.0, 1.0 + 2e-7), (1e10, 1e10 + 10.0), (0.0, 1e-19), (0.0, 1e-17)):
        ck(bool(almostEqual(aa, bb)) == (abs(aa - bb) <= 1e-18 + 1e-7 * abs(bb)), 'almostEqual(a,b) is |a-b| <= tol + rel*|b|', a=aa, b=bb)
    obs.nontrivial = len(set(x)) >= 3 and (w is None or weighted_nontrivial(w))


def run_metrics(rng, obs):
    """L-p norms and the point-to-point metrics in their documented usages: default arguments, every p incl. 0 / inf / fractional, norms
    along an axis, distance matrices between two sets of points (pair=False, axis=0), row-wise distances (pair=True, axis=1), 1-D vectors
    upconverted with dmin=2, a set of points against itself (xp omitted)"""
    import mystic.math.distance as md
    G = [0.0, 1.0, -2.5, 3.0, 0.5, -1.0, 7.25]
    d = rng.randint(1, 4); a = rng.randint(1, 4); b = rng.randint(1, 4)
    X = [[rng.choice(G) for _ in range(d)] for _ in range(a)]
    Y = [[rng.choice(G) for _ in range(d)] for _ in range(b)]
    if rng.random() < 0.3 and a == b: Y = [list(r) for r in X]; Y[rng.randrange(b)][rng.randrange(d)] += 1.0     # mostly equal coordinates: hamming has something to count
    obs.desc = {'X': X, 'Y': Y}
    ck = lambda ok, what, **kw: obs.check(ok, 'def:' + what, X=X, Y=Y, **kw)
    P = {'chebyshev': math.inf, 'hamming': 0, 'euclidean': 2, 'manhattan': 1, 'minkowski': 3}
    def fl(z): return [[float(v) for v in r] for r in np.asarray(z, dtype=float).reshape(np.asarray(z).shape[0], -1)] if np.asarray(z).ndim >= 2 else [float(v) for v in np.ravel(z)]
    # ---- norms
    v = [rng.choice(G) * rng.choice([1, 1, 10]) for _ in range(rng.randint(1, 6))]
    ck(R.close(float(md.Lnorm(v)), R.lnorm(v, 1)), 'Lnorm defaults to the L-1 norm', v=v, observed=float(md.Lnorm(v)), expected=R.lnorm(v, 1))
    for p in (0, 1, 2, 3, 7, math.inf):          # (p is documented as an integer in [0, inf])
        ck(R.close(float(md.Lnorm(v, p)), R.lnorm(v, p)), 'Lnorm is (sum |w|^p)^(1/p) (count of non-zeros for p=0, max for p=inf)', p=p, v=v,
           observed=float(md.Lnorm(v, p)), expected=R.lnorm(v, p))
    M = np.array(X)
    for ax in (0, 1):
        p = rng.choice([0, 1, 2, 3, math.inf])
        got = md.Lnorm(M, p, axis=ax)
        want = [R.lnorm(col, p) for col in (M.T.tolist() if ax == 0 else M.tolist())]
        ck(np.asarray(got).shape == ((1, d) if ax == 0 else (a, 1)) and all(R.close(float(g), w_) for g, w_ in zip(np.ravel(got), want)),
           'Lnorm along an axis is the norm of every column / row (the reduced axis is kept)', p=p, axis=ax, observed=np.asarray(got).tolist(), expected=want)
    # ---- distance matrix between two sets of points: metric(X, Y, axis=0)[i, j] = metric(X[i], Y[j])
    for name, p in P.items():
        f = getattr(md, name)
        kw = {} if (name != 'minkowski' or rng.random() < 0.5) else {'p': 3}
        got = np.asarray(f(X, Y, axis=0, **kw))
        want = [[R.dist(X[i], Y[j], p) for j in range(b)] for i in range(a)]
        ck(got.shape == (a, b) and all(R.close(float(got[i][j]), want[i][j]) for i in range(a) for j in range(b)),
           'distance matrix (pair=False, axis=0) holds the metric between every pair of points', metric=name, observed=got.tolist(), expected=want)
        selfd = np.asarray(f(X, axis=0, **kw))
        wself = [[R.dist(X[i], X[j], p) for j in range(a)] for i in range(a)]
        ck(selfd.shape == (a, a) and all(R.close(float(selfd[i][j]), wself[i][j]) for i in range(a) for j in range(a)),
           'with the second set omitted the points are compared with themselves (symmetric, zero diagonal)', metric=name, observed=selfd.tolist(), expected=wself)
    # ---- row-wise distances of two equally shaped sets: metric(X, Z, pair=True, axis=1)[i] = metric(X[i], Z[i])
    Z = [[rng.choice(G) for _ in range(d)] for _ in range(a)]
    for name, p in P.items():
        f = getattr(md, name)
        got = np.ravel(f(X, Z, pair=True, axis=1))
        want = [R.dist(X[i], Z[i], p) for i in range(a)]
        ck(len(got) == a and all(R.close(float(g), w_) for g, w_ in zip(got, want)), 'row-wise distances (pair=True, axis=1)', metric=name, Z=Z, observed=got.tolist(), expected=want)
        # other p for minkowski; vectors: pair=True without axis is the metric of the two vectors; dmin=2 upconverts a vector to ONE point
        x1, z1 = X[0], Z[0]
        got1 = float(np.ravel(f(x1, z1, pair=True))[0]) if np.ndim(f(x1, z1, pair=True)) else float(f(x1, z1, pair=True))
        ck(R.close(got1, R.dist(x1, z1, p)), 'point-to-point distance equals its textbook definition', metric=name, v=x1, u=z1, observed=got1, expected=R.dist(x1, z1, p))
        got2 = np.asarray(f(x1, z1, dmin=2, axis=0))
        ck(got2.size == 1 and R.close(float(np.ravel(got2)[0]), R.dist(x1, z1, p)), 'a vector upconverted with dmin=2 is one point: a 1x1 distance matrix', metric=name,
           v=x1, u=z1, observed=got2.tolist(), expected=R.dist(x1, z1, p))
    for p in (0.5, 1, 2, 4, math.inf):
        got = float(np.ravel(md.minkowski(X[0], Z[0], pair=True, p=p))[0]) if np.ndim(md.minkowski(X[0], Z[0], pair=True, p=p)) else float(md.minkowski(X[0], Z[0], pair=True, p=p))
        ck(R.close(got, R.dist(X[0], Z[0], p)), 'minkowski distance is the p-norm of the difference', p=p, v=X[0], u=Z[0], observed=got, expected=R.dist(X[0], Z[0], p))
    obs.event('metric_cases')
    obs.nontrivial = a >= 2 and b >= 2 and d >= 2
    obs.notes = {'shape': [a, b, d]}


def run_inputs(rng, obs):
    """every transform / definition leaves what it was handed as it was (lists, tuples and - where copies are easiest to forget - float arrays),
    and answers the same whatever the container"""
    import mystic.math.measures as mm
    n = rng.randint(3, 8)
    x = gen_samples(rng, n)
    w = gen_weights(rng, n, zeros=rng.random() < 0.4)
    idx = sorted(rng.sample(range(n), rng.randint(1, n - 2)))
    if not any(w[i] > 0 for i in range(n) if i not in idx): w[[i for i in range(n) if i not in idx][0]] = 0.7
    if not any(w[i] > 0 for i in idx): w[idx[0]] = 0.4
    pairs = set([tuple(sorted(rng.sample(range(n), 2)))])
    t = rng.choice([1.0, 2.5, 7.0])
    table = {
        'impose_mean': lambda X, W: mm.impose_mean(t, X, W),
        'impose_variance': lambda X, W: mm.impose_variance(t, X, W),
        'impose_std': lambda X, W: mm.impose_std(t, X, W),
        'impose_spread': lambda X, W: mm.impose_spread(t, X, W),
        'impose_moment': lambda X, W: mm.impose_moment(t, X, W, order=2),
        'impose_sum': lambda X, W: mm.impose_sum(t, W),
        'normalize': lambda X, W: mm.normalize(W, t),
        'impose_weight_norm': lambda X, W: mm.impose_weight_norm(X, W, t),
        'impose_support': lambda X, W: mm.impose_support(list(idx), X, W),
        'impose_unweighted': lambda X, W: mm.impose_unweighted(list(idx), X, W),
        'impose_collapse': lambda X, W: mm.impose_collapse(set(pairs), X, W),
        'impose_median': lambda X, W: mm.impose_median(t, X, W),
        'impose_mad': lambda X, W: mm.impose_mad(t, X, W),
        'impose_tmean': lambda X, W: mm.impose_tmean(t, X, W),
        'mean': lambda X, W: mm.mean(X, W), 'variance': lambda X, W: mm.variance(X, W), 'std': lambda X, W: mm.std(X, W),
        'moment': lambda X, W: mm.moment(X, W, order=3), 'spread': lambda X, W: mm.spread(X), 'median': lambda X, W: mm.median(X, W), 'mad': lambda X, W: mm.mad(X, W),
        'support': lambda X, W: mm.support(X, W), 'support_index': lambda X, W: mm.support_index(W),
    }
    which = rng.choice(sorted(table))
    f = table[which]
    kind = rng.choice(['array', 'array', 'list', 'tuple'])
    mk = {'array': lambda v: np.array(v, dtype=float), 'list': list, 'tuple': tuple}[kind]
    X, W = mk(x), mk(w)
    obs.desc = {'f': which, 'container': kind, 'x': x, 'w': w, 't': t, 'index': idx, 'pairs': sorted(pairs)}
    def flat(r):
        if isinstance(r, tuple) and len(r) == 2 and hasattr(r[0], '__len__'): return [float(v) for v in r[0]] + [float(v) for v in r[1]]
        return [float(v) for v in np.ravel(np.asarray(r, dtype=float))]
    try:
        ref_out = flat(f(list(x), list(w)))
    except Exception as e:
        obs.skip('reference call raised %s' % type(e).__name__); return
    out = flat(f(X, W))
    obs.check([float(v) for v in X] == x and [float(v) for v in W] == w and type(X) is type(mk(x)), 'keeps:the samples and weights handed in are left as they were', f=which, container=kind,
              x_before=x, x_after=[float(v) for v in X], w_before=w, w_after=[float(v) for v in W])
    same = len(out) == len(ref_out) and all((a == b) or (a != a and b != b) or abs(a - b) <= 1e-9 * max(1.0, abs(a), abs(b)) for a, b in zip(out, ref_out))
    obs.check(same, 'keeps:the answer does not depend on the container the samples and weights come in', f=which, container=kind, observed=out[:6], from_lists=ref_out[:6])
    again = flat(f(X, W))
    obs.check(len(again) == len(out) and all((a == b) or (a != a and b != b) for a, b in zip(again, out)), 'keeps:the same call on the same objects gives the same answer', f=which, container=kind,
              first=out[:6], second=again[:6])
    obs.event('assert:keeps', 3)
    obs.nontrivial = kind == 'array'


def run_case(cls, idx, rng, obs):
    import warnings
    warnings.simplefilter('ignore')
    np.seterr(all='ignore')
    return {'impose': run_impose, 'support': run_support, 'robust': run_robust, 'defs': run_defs, 'metrics': run_metrics, 'inputs': run_inputs}[cls](rng, obs)
