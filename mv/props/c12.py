"""C12 - symbolic rewriting preserves the solution set.

The input system and every returned case (lines of a case conjunctively, cases
disjunctively) are evaluated by an independent interpreter at sample points built
around the system (both signs of every variable, points on the equality manifold of
the input AND of the output, small and large offsets); the two truth values must agree
wherever both are decidable."""
import math
import numpy as np
from ..refs import ctext as T

PROPERTY = 'C12'
LEVEL = 'exploration'
TECHNIQUE = 'differential monitoring: input and rewritten constraint systems evaluated by an independent interpreter at generated sample points (incl. points constructed on the equality manifolds of both)'
RULE = ('case = (system: linear 1-4 lines over 1-5 variables with all comparators and negative/fractional/huge/tiny coefficients, or a rational relation with one variable factor and a '
        'non-zero other side; variable naming; 60-400 sample points); non-trivial = the isolated variable had a negative coefficient or a variable divisor (a flip decision was needed) '
        'and both truth values were observed among the samples; distinct by canonical JSON')
ASSUMPTIONS = ['points within 1e-9 (relative) of an inequality boundary, or where a side divides by zero, are not judged',
               'equalities are judged with relative tolerance 1e-8 at points constructed on the manifold',
               'simplify is called with all=True; a case is the conjunction of its lines, the result the disjunction of its cases']
CLASSES = {
    'linear': {'quick': 520, 'thorough': 8000},
    'rational': {'quick': 240, 'thorough': 4000},
    'solve': {'quick': 160, 'thorough': 2500},
    'named_constants': {'quick': 240, 'thorough': 3000},
    'matrix_text': {'quick': 600, 'thorough': 8000},
    'mirror_pairs': {'quick': 300, 'thorough': 3000},
    'exact_lattice': {'quick': 600, 'thorough': 6000},
    'hostile_zero_rhs': {'quick': 32, 'thorough': 200},
    'hostile_contradiction': {'quick': 32, 'thorough': 200},
}
MIN_EVENTS = {'quick': {'points_judged': 20000, 'assert:same': 350, 'assert:text': 250, 'exact_boundary_points_judged': 3000}}
CASE_TIMEOUT = 300
CMPS = ['=', '<=', '>=', '<', '>']


def coef(rng):
    r = rng.random()
    if r < 0.5: return float(rng.choice([1, 2, 3, -1, -2, 4, 5, -3]))
    if r < 0.75: return rng.choice([0.5, -0.25, 1.5, -2.5, 0.125])
    if r < 0.85: return rng.choice([1e3, -1e4, 2.5e3])
    if r < 0.95: return rng.choice([1e-3, -2e-3, 5e-4])
    return 0.0


def fmt(c):
    return repr(c)


def names_for(rng, n):
    if rng.random() < 0.7: return 'x', ['x%d' % i for i in range(n)]
    pool = ['p', 'pq', 'u', 'u1', 'w', 'wv', 'z', 'zz', 'k', 'y']
    if rng.random() < 0.35:      # user names that happen to be names of the maths namespace simplify evaluates in (constants and functions)
        pool = ['e', 'pi', 'size', 'rate', 'cost', 'inf', 'gamma', 'beta', 'var', 'std']
    nm = rng.sample(pool, n)
    return nm, nm


def linear_system(rng, n, names, nlines):
    rows, text = [], []
    linear_system.last_pair = None
    linear_system.vacuous_false_equalities = 0
    for _ in range(nlines):
        a = [coef(rng) for _ in range(n)]
        if not any(a): a[rng.randrange(n)] = rng.choice([1.0, -2.0])
        b = rng.choice([0.0, 1.0, -3.0, 2.5, 7.0, -0.5])
        if n >= 2 and rng.random() < 0.2:
            # ordering / balance constraints: homogeneous lines whose coefficients sum to zero (xi - xj CMP 0, 2*xi - xj - xk CMP 0)
            a = [0.0] * n
            idx = rng.sample(range(n), rng.choice([2, 2, 3]) if n >= 3 else 2)
            c0 = rng.choice([1.0, -1.0, 2.0, -2.0, 0.5])
            a[idx[0]] = c0
            for j in idx[1:]: a[j] = -c0 / (len(idx) - 1)
            b = 0.0
        cmp = rng.choice(CMPS)
        terms = ' + '.join('%s*%s' % (fmt(c), v) for c, v in zip(a, names) if c != 0)
        # move some terms to the right-hand side to exercise both sides
        if rng.random() < 0.3:
            j = rng.randrange(n); cr = coef(rng) or 1.0
            rhs = '%s + %s*%s' % (fmt(b), fmt(cr), names[j]); a[j] -= cr
        else: rhs = fmt(b)
        rows.append((a, cmp, b)); text.append('%s %s %s' % (terms, cmp, rhs))
        if cmp == '=' and not any(a) and b != 0: linear_system.vacuous_false_equalities += 1      # the variables cancel: '0 = b'
    if rng.random() < 0.25 and len(rows) < 4:
        # a scaled copy of an existing line with another comparator: the pair may pinch the solution set to an equality
        # (>= with <=), or be contradictory (> with <), or be redundant; whatever simplify returns must have the same solution set
        a, cmp, b = rows[rng.randrange(len(rows))]
        if cmp != '=':
            sc = rng.choice([1.0, 2.0, 0.5, 3.0])
            mirror = {'<=': '>=', '>=': '<=', '<': '>', '>': '<'}[cmp]
            cmp2 = rng.choice([mirror, mirror, cmp, {'<=': '>', '>=': '<', '<': '>=', '>': '<='}[cmp]])
            a2 = [sc * c for c in a]; b2 = sc * b
            rows.append((a2, cmp2, b2))
            pair = frozenset((cmp, cmp2))
            linear_system.last_pair = ('contradictory_strict' if pair == frozenset(('<', '>')) else
                                       'contradictory_complement' if pair in (frozenset(('>', '<=')), frozenset(('<', '>='))) else
                                       'pinch' if pair == frozenset(('<=', '>=')) else 'other')
            text.append('%s %s %s' % (' + '.join('%s*%s' % (fmt(c), v) for c, v in zip(a2, names) if c != 0), cmp2, fmt(b2)))
    if linear_system.last_pair is None:
        linear_system.last_pair = classify_pairs(rows)         # the same kinds of pair also arise by chance (e.g. two ordering lines)
    return rows, '\n'.join(text)


def classify_pairs(rows):
    """two inequality lines that bound ONE expression (proportional coefficient vectors and constants): which kind of pair?"""
    FLIP = {'<=': '>=', '>=': '<=', '<': '>', '>': '<'}
    found = None
    for i in range(len(rows)):
        for j in range(i + 1, len(rows)):
            (a1, c1, b1), (a2, c2, b2) = rows[i], rows[j]
            if c1 == '=' or c2 == '=': continue
            k = next((q for q, v in enumerate(a1) if v), None)
            if k is None or not a2[k]: continue
            sc = a2[k] / a1[k]
            if not all(abs(v2 - sc * v1) <= 1e-12 * max(1.0, abs(v2)) for v1, v2 in zip(a1, a2)) or abs(b2 - sc * b1) > 1e-12 * max(1.0, abs(b2)): continue
            cc2 = c2 if sc > 0 else FLIP[c2]                   # the second line expressed on the first line's expression
            pair = frozenset((c1, cc2))
            kind = ('contradictory_strict' if pair == frozenset(('<', '>')) else
                    'contradictory_complement' if pair in (frozenset(('>', '<=')), frozenset(('<', '>='))) else
                    'pinch' if pair == frozenset(('<=', '>=')) else 'other')
            if found in (None, 'other'): found = kind
    return found


def sample_points(rng, n, rows, k):
    """random points, plus points on the equality manifold of the input (linear algebra), at several scales"""
    pts = []
    eq = [(a, b) for a, c, b in rows if c == '=']
    N = None
    if eq:
        A = np.array([a for a, b in eq]); bb = np.array([b for a, b in eq])
        xp, res, rank, sv = np.linalg.lstsq(A, bb, rcond=None)
        if np.allclose(A @ xp, bb, atol=1e-9):
            u, s, vt = np.linalg.svd(A)
            r = int((s > 1e-12 * max(1.0, s.max())).sum())
            N = vt[r:].T if r < n else np.zeros((n, 0))
            for _ in range(k):
                z = np.array([rng.choice([1.0, 10.0, 0.1]) * rng.gauss(0, 2) for _ in range(N.shape[1])])
                pts.append((xp + (N @ z if N.shape[1] else 0)).tolist())
    for _ in range(k):
        sc = rng.choice([1.0, 1.0, 10.0, 0.1, 1e3])
        pts.append([sc * rng.gauss(0, 2) for _ in range(n)])
    return pts


def compare(obs, rng, text, cases, names, pts, flipneeded, extra_pts=(), **ctx):
    """pointwise equivalence of the input with the disjunction of the cases"""
    seen = set(); bad = []
    for x in list(pts) + list(extra_pts):
        a = T.satisfied3(text, names, x)
        bs = [T.satisfied3(c, names, x) for c in cases]
        if a is None or any(b is None for b in bs):
            obs.event('points_not_judged'); continue
        b = any(bs)
        obs.event('points_judged')
        seen.add(a)
        if a != b and len(bad) < 3:
            bad.append({'x': x, 'input_holds': a, 'cases_hold': bs})
    obs.check(not bad, 'same:the rewritten system is satisfied by exactly the same points as the input', text=text, cases=list(cases), witnesses=bad,
              merged_to_not_equal=any('!=' in c for c in cases),
              equalities_in=sum(1 for l in T.lines(text) if T.split(l)[1] in ('=', '==')),
              equalities_out=[sum(1 for l in T.lines(c)) and sum(1 for l in T.lines(c) if T.split(l)[1] in ('=', '==')) for c in cases], **ctx)
    return seen


def contradiction_check(obs, text, cases, names, pts, tag):
    """the input is contradictory BY CONSTRUCTION (two lines bound the same expression from incompatible sides): every returned
    case must then be unsatisfiable.  A point at which some case decidedly holds refutes that - also when the point lies on the
    input's own boundary, where sampling alone cannot decide the input."""
    wit = []
    for x in pts:
        hs = [T.satisfied3(c, names, x) for c in cases]
        if any(h is True for h in hs) and len(wit) < 3:
            wit.append({'x': x, 'input_holds': False, 'cases_hold': hs})
    obs.event('contradictory_inputs')
    obs.check(not wit, 'same:the rewritten system is satisfied by exactly the same points as the input', text=text, cases=list(cases), witnesses=wit,
              merged_to_not_equal=any('!=' in c for c in cases), mirrored_pair=tag, input_contradictory_by_construction=True,
              equalities_in=sum(1 for l in T.lines(text) if T.split(l)[1] in ('=', '==')),
              equalities_out=[sum(1 for l in T.lines(c) if T.split(l)[1] in ('=', '==')) for c in cases])


def points_on_output(rng, cases, names, k):
    """points built by executing the assignments 'xi = f(...)' of a case on random vectors"""
    pts = []
    for c in cases:
        eqs = [T.split(l) for l in T.lines(c)]
        eqs = [(l, r) for l, cmp, r in eqs if cmp in ('=', '==') and l in names]
        if not eqs: continue
        for _ in range(k):
            x = [rng.gauss(0, 3) for _ in names]
            try:
                for _pass in range(60):          # the assignments may refer to one another: iterate to a fixed point
                    prev = list(x)
                    for l, r in eqs:
                        x[names.index(l)] = T.value(r, T.env_of(names, x))
                    if x == prev: break
                if x == prev and all(math.isfinite(v) and abs(v) < 1e9 for v in x):
                    pts.append(x)
            except (ZeroDivisionError, ValueError, OverflowError):
                pass
    return pts


def run_linear(rng, obs):
    from mystic.symbolic import simplify
    n = rng.randint(1, 5); nlines = rng.randint(1, min(4, n + 1))
    variables, names = names_for(rng, n)
    rows, text = linear_system(rng, n, names, nlines)
    # keep equality sub-systems consistent and independent enough: at most n-1 equalities
    if sum(1 for a, c, b in rows if c == '=') >= n:
        rows = [(a, ('<=' if c == '=' and i else c), b) for i, (a, c, b) in enumerate(rows)]
        text = '\n'.join(l.replace(' = ', ' <= ') if i else l for i, l in enumerate(text.splitlines()))
    obs.desc = {'text': text, 'variables': variables if isinstance(variables, str) else names}
    try:
        res = simplify(text, variables=variables, all=True)
    except Exception as e:
        obs.skip('simplify raised %s' % type(e).__name__); obs.event('simplify_raised'); return
    cases = res if isinstance(res, tuple) else (res,)
    if not all(isinstance(c, str) and c.strip() for c in cases):
        obs.skip('no result'); return
    pts = sample_points(rng, n, rows, 60)
    onout = points_on_output(rng, cases, names, 20)
    seen = compare(obs, rng, text, cases, names, pts, None, onout, mirrored_pair=linear_system.last_pair,
                   vacuous_false_equalities=linear_system.vacuous_false_equalities)
    if (linear_system.last_pair or '').startswith('contradictory'):
        contradiction_check(obs, text, cases, names, onout + pts, linear_system.last_pair)
    # was a flip decision needed?  (the variable simplify isolated had a negative coefficient in an inequality)
    neg = False
    for (a, c, b), line in zip(rows, T.lines(cases[0])):
        l, cmp, r = T.split(line)
        if c != '=' and l in names and a[names.index(l)] < 0: neg = True
    obs.nontrivial = neg and len(seen) == 2
    obs.notes = {'cases': list(cases), 'truth_values_seen': sorted(seen)}


def run_named_constants(rng, obs):
    """simplify(text, locals={name: value}): named constants take the values the caller gives them, so the result holds exactly where the text
    with the values written out holds"""
    from mystic.symbolic import simplify
    n = rng.randint(1, 3)
    variables, names = names_for(rng, n)
    # (names that numpy / math also define - e, pi, tau, euler_gamma - are left out: see DESIGN section 6)
    # (nor names that contain, or are contained in, a variable name of the case: whole-name substitution of named variables is a recorded C13 finding)
    pool = [c for c in ['A0', 'Kc', 'QQ', 'C1', 'Bq', 'a', 'q'] if not any(c in v or v in c for v in names)]
    cname = rng.choice(pool or ['QZ9'])
    cval = rng.choice([-2.0, 3.0, 0.5, -1.5, 4.0])
    nlines = rng.randint(1, min(2, n))
    lines_n, lines_v = [], []
    for j in range(nlines):
        co = [rng.choice([1.0, 2.0, -1.0, 3.0]) for _ in range(n)]
        pos = rng.randrange(n) if j == 0 else None        # the named constant is the coefficient of one variable of the first line
        cmp = rng.choice(['<=', '>=', '<', '>', '='] if j == 0 else ['<=', '>='])
        rhs = rng.choice([3.0, 0.0, -2.0, 1.5])
        def term(i, namedform):
            if i == pos: return '%s*%s' % (cname if namedform else repr(cval), names[i])
            return '%s*%s' % (fmt(co[i]), names[i])
        lines_n.append('%s %s %s' % (' + '.join(term(i, True) for i in range(n)), cmp, fmt(rhs)))
        lines_v.append('%s %s %s' % (' + '.join(term(i, False) for i in range(n)), cmp, fmt(rhs)))
    text_n, text_v = '\n'.join(lines_n), '\n'.join(lines_v)
    obs.desc = {'text': text_n, 'locals': {cname: cval}, 'variables': variables if isinstance(variables, str) else names}
    try:
        res = simplify(text_n, variables=variables, locals={cname: cval}, all=True)
    except Exception as e:
        obs.skip('simplify raised %s' % type(e).__name__); obs.event('simplify_raised'); return
    cases = res if isinstance(res, tuple) else (res,)
    if not all(isinstance(c, str) and c.strip() for c in cases):
        obs.skip('no result'); return
    seen = set(); bad = []
    for _ in range(60):
        x = [rng.choice([rng.uniform(-6, 6), float(rng.randint(-4, 4))]) for _ in range(n)]
        a = T.satisfied3(text_v, names, x)
        bs = [T.satisfied3(c, names, x, extra={cname: cval}) for c in cases]
        if a is None or any(b is None for b in bs): continue
        obs.event('points_judged'); seen.add(a)
        if a != any(bs) and len(bad) < 3: bad.append({'x': x, 'input_holds': a, 'cases_hold': bs})
    obs.check(not bad, 'same:the rewritten system is satisfied by exactly the same points as the input', text=text_n, locals={cname: cval}, result=list(cases), witnesses=bad, named_constant=cname)
    obs.event('named_constant_cases')
    obs.nontrivial = len(seen) == 2


def run_mirror(rng, obs):
    """two lines over the same (scaled) linear expression with every combination of comparators, optionally with a third line:
    redundant, pinching, complementary or contradictory pairs.  Whatever simplify returns must have the same solution set."""
    from mystic.symbolic import simplify
    n = rng.randint(1, 3)
    variables, names = names_for(rng, n)
    style = rng.choice(['int', 'float'])
    a = [float(rng.choice([1, 2, 3, -1, -2])) for _ in range(n)] if style == 'int' else [coef(rng) or 1.0 for _ in range(n)]
    b = float(rng.choice([0, 2, 4, -3])) if style == 'int' else rng.choice([0.0, 2.5, -3.0, 7.0])
    sc = rng.choice([1.0, 2.0, 0.5, 3.0])
    cmp1 = rng.choice(['<', '>', '<=', '>=']); cmp2 = rng.choice(['<', '>', '<=', '>='])
    def line(aa, cmp, bb):
        f = (lambda v: repr(int(v)) if style == 'int' and float(v).is_integer() else repr(v))
        return '%s %s %s' % (' + '.join('%s*%s' % (f(c), v) for c, v in zip(aa, names) if c != 0), cmp, f(bb))
    rows = [(a, cmp1, b), ([sc * c for c in a], cmp2, sc * b)]
    text = '\n'.join(line(*r) for r in rows)
    if rng.random() < 0.4 and n >= 2:
        a3 = [float(rng.choice([1, -1, 2])) for _ in range(n)]; rows.append((a3, rng.choice(['<=', '>=']), float(rng.choice([1, 5, -2]))))
        text += '\n' + line(*rows[-1])
    pair = frozenset((cmp1, cmp2))
    tag = ('contradictory_strict' if pair == frozenset(('<', '>')) else 'contradictory_complement' if pair in (frozenset(('>', '<=')), frozenset(('<', '>='))) else
           'pinch' if pair == frozenset(('<=', '>=')) else 'other')
    obs.desc = {'text': text, 'variables': variables if isinstance(variables, str) else names, 'pair': tag}
    try:
        res = simplify(text, variables=variables, all=True)
    except Exception as e:
        obs.skip('simplify raised %s' % type(e).__name__); obs.event('simplify_raised'); return
    cases = res if isinstance(res, tuple) else (res,)
    if not all(isinstance(c, str) and c.strip() for c in cases):
        obs.event('no_result'); obs.nontrivial = False; obs.notes = {'result': repr(res)}; return
    pts = sample_points(rng, n, [(r[0], r[1], r[2]) for r in rows], 50)
    # points on the shared boundary a.x = b and just beside it
    base = sample_points(rng, n, [(a, '=', b)], 30)
    onout = points_on_output(rng, cases, names, 30)
    seen = compare(obs, rng, text, cases, names, pts + base, None, onout, mirrored_pair=tag)
    if tag.startswith('contradictory'):
        contradiction_check(obs, text, cases, names, onout + pts + base, tag)
    obs.nontrivial = len(seen) >= 1
    obs.notes = {'cases': list(cases), 'pair': tag}


def run_rational(rng, obs):
    from mystic.symbolic import simplify
    n = rng.randint(2, 4)
    variables, names = names_for(rng, n)
    i, j = rng.sample(range(n), 2)
    c = rng.choice([1.0, 2.0, -3.0, 0.5]); d = rng.choice([4.0, -2.0, 6.0, 1.5, -0.5])
    cmp = rng.choice(['<=', '>=', '<', '>'])
    form = rng.choice(['prod', 'quot', 'recip', 'prod_plus'])
    if form == 'prod': line = '%s*%s*%s %s %s' % (fmt(c), names[i], names[j], cmp, fmt(d))
    elif form == 'quot': line = '%s*%s/%s %s %s' % (fmt(c), names[i], names[j], cmp, fmt(d))
    elif form == 'recip': line = '%s/%s %s %s*%s' % (fmt(d), names[j], cmp, fmt(c), names[i])
    else: line = '%s*%s*%s %s %s' % (fmt(c), names[i], names[j], cmp, fmt(d))
    # the same relation spelled with blanks around the operators (x0 / x1, x0 * x1): spelling does not change the solution set
    sp = rng.choice(['tight', 'tight', 'spaced', 'after', 'before'])
    if sp != 'tight':
        a_, b_ = {'spaced': (' ', ' '), 'after': ('', ' '), 'before': (' ', '')}[sp]
        lhs_, cmp_, rhs_ = T.split(line)
        line = '%s %s %s' % (lhs_.replace('/', a_ + '/' + b_).replace('*', a_ + '*' + b_), cmp_, rhs_.replace('/', a_ + '/' + b_).replace('*', a_ + '*' + b_))
    text = line
    if rng.random() < 0.4:
        k = rng.randrange(n)
        text += '\n%s %s %s' % (names[k], rng.choice(['<=', '>=']), fmt(rng.choice([3.0, -1.0, 0.0])))
    obs.desc = {'text': text, 'variables': variables if isinstance(variables, str) else names, 'form': form, 'spelling': sp}
    if rng.random() < 0.5:
        single_case_first(obs, rng, text, variables, names, [[sc_ * rng.gauss(0, 2) for _ in range(n)] for sc_ in (1.0, 1.0, 5.0, 0.2) for _ in range(40)])
    try:
        res = simplify(text, variables=variables, all=True)
    except Exception as e:
        obs.skip('simplify raised %s' % type(e).__name__); obs.event('simplify_raised'); return
    cases = res if isinstance(res, tuple) else (res,)
    if not all(isinstance(cc, str) and cc.strip() for cc in cases):
        obs.skip('no result'); return
    pts = []
    for _ in range(240):
        sc = rng.choice([1.0, 1.0, 5.0, 0.2])
        pts.append([sc * rng.gauss(0, 2) for _ in range(n)])
    seen = compare(obs, rng, text, cases, names, pts, True)
    obs.nontrivial = len(seen) == 2
    obs.notes = {'cases': list(cases), 'truth_values_seen': sorted(seen)}


def run_solve(rng, obs):
    from mystic.symbolic import solve
    n = rng.randint(2, 5); m = rng.randint(1, n - 1)
    if rng.random() < 0.3: m = n          # square systems: the solved form is a single point, whose coordinates are often exactly 0
    variables, names = names_for(rng, n)
    # consistent by construction: b = A x*
    A = [[float(rng.choice([1, 2, 3, -1, -2, 0, 4])) if rng.random() < 0.8 else rng.choice([0.5, -1.5]) for _ in range(n)] for _ in range(m)]
    for a in A:
        if not any(a): a[rng.randrange(n)] = 1.0
    xs = [float(rng.randint(-3, 3)) for _ in range(n)]
    b = [sum(ai * xi for ai, xi in zip(a, xs)) for a in A]
    text = '\n'.join('%s = %s' % (' + '.join('%s*%s' % (fmt(c), v) for c, v in zip(a, names) if c != 0), fmt(bi)) for a, bi in zip(A, b))
    obs.desc = {'text': text, 'variables': variables if isinstance(variables, str) else names}
    if np.linalg.matrix_rank(np.array(A)) < m:
        obs.skip('dependent rows'); return
    try:
        res = solve(text, variables=variables)
    except Exception as e:
        obs.skip('solve raised %s' % type(e).__name__); obs.event('solve_raised'); return
    if not res or not isinstance(res, str):
        obs.violation('same:solve returns a solved form for a consistent linear system', text=text, result=repr(res)[:100]); return
    rows = [(a, '=', bi) for a, bi in zip(A, b)]
    pts = sample_points(rng, n, rows, 40)
    import re
    nums = [abs(float(t)) for t in re.findall(r'(?<![A-Za-z_0-9.])\d+\.?\d*(?:[eE][-+]?\d+)?', res)]
    seen = compare(obs, rng, text, (res,), names, pts, None, points_on_output(rng, (res,), names, 40), solve=True,
                   max_number_in_result=max(nums) if nums else 0.0, max_number_in_input=max(max(abs(c) for a in A for c in a), max(abs(v) for v in b)))
    obs.check(len(T.lines(res)) == m, 'same:the solved form has one line per independent equation', text=text, result=res)
    obs.nontrivial = True in seen and False in seen
    obs.notes = {'result': res}


def run_matrix_text(rng, obs):
    from mystic.symbolic import linear_symbolic, symbolic_bounds
    n = rng.randint(1, 5)
    if rng.random() < 0.5:
        ne, ni = rng.randint(0, 2), rng.randint(0, 3)
        if ne + ni == 0: ni = 1
        A = [[coef(rng) for _ in range(n)] for _ in range(ne)]; b = [rng.choice([0.0, 1.0, -2.5]) for _ in range(ne)]
        G = [[coef(rng) for _ in range(n)] for _ in range(ni)]; h = [rng.choice([0.0, 3.0, -1.0]) for _ in range(ni)]
        variables, names = names_for(rng, n)
        # the matrices in the layouts the documentation shows or accepts: nested lists, arrays, a single row given flat, the right-hand sides
        # wrapped once more ([[...]])
        def lay_m(M):
            if not M: return None, 'none'
            k = rng.choice(['nested', 'nested', 'array', 'flat', 'flat_array']) if len(M) == 1 else rng.choice(['nested', 'nested', 'array'])
            if k == 'nested': return [list(r) for r in M], k
            if k == 'array': return np.array(M, dtype=float), k
            if k == 'flat': return list(M[0]), k
            return np.array(M[0], dtype=float), k
        def lay_v(v):
            if not v: return None, 'none'
            k = rng.choice(['list', 'list', 'array', 'wrapped'])
            return (list(v), k) if k == 'list' else ((np.array(v, dtype=float), k) if k == 'array' else ([list(v)], k))
        (Ai, ka), (bi, kb), (Gi, kg), (hi, kh) = lay_m(A), lay_v(b), lay_m(G), lay_v(h)
        if isinstance(variables, list) and ('flat' in ka or 'flat' in kg): pass
        text = linear_symbolic(Ai, bi, Gi, hi, variables=variables)
        obs.desc = {'what': 'linear_symbolic', 'A': A, 'b': b, 'G': G, 'h': h, 'variables': names, 'layouts': [ka, kb, kg, kh]}
        bad = []
        rows = [(a, '=', bi) for a, bi in zip(A, b)]
        both = set()
        for x in sample_points(rng, n, rows, 30):
            eq = all(abs(sum(ai * xi for ai, xi in zip(a, x)) - bi) <= 1e-8 * (1 + abs(bi) + sum(abs(ai * xi) for ai, xi in zip(a, x))) for a, bi in zip(A, b))
            margins = [sum(gi * xi for gi, xi in zip(g, x)) - hi for g, hi in zip(G, h)]
            if any(abs(mg) <= 1e-9 * (1 + abs(hi)) for mg, hi in zip(margins, h)): continue
            want = eq and all(mg <= 0 for mg in margins)
            got = T.satisfied3(text, names, x)
            if got is None: continue
            obs.event('points_judged'); both.add(want)
            if got != want and len(bad) < 3: bad.append({'x': x, 'text_holds': got, 'matrices_hold': want})
        obs.check(not bad, 'text:linear_symbolic text holds exactly where Ax=b and Gx<=h hold', text=text, witnesses=bad)
        obs.nontrivial = len(both) == 2
    else:
        lo = [rng.choice([None, -1.0, 0.0, -10.5, 2.0]) for _ in range(n)]
        hi = [(None if rng.random() < 0.3 else (l if l is not None else 0.0) + rng.choice([0.0, 1.0, 5.5])) for l in lo]
        variables, names = names_for(rng, n)
        text = symbolic_bounds(list(lo), list(hi), variables=variables)
        obs.desc = {'what': 'symbolic_bounds', 'lo': lo, 'hi': hi, 'variables': names}
        bad = []; both = set()
        L = [-math.inf if v is None else v for v in lo]; H = [math.inf if v is None else v for v in hi]
        for _ in range(40):
            x = [rng.choice([l, hh, 0.0, rng.uniform(-15, 15)]) if rng.random() < 0.5 else rng.uniform(-15, 15) for l, hh in zip(L, H)]
            x = [0.0 if not math.isfinite(v) else v for v in x]
            want = all(l <= v <= hh for v, l, hh in zip(x, L, H))
            got = T.satisfied(text, names, x) if text.strip() else True
            obs.event('points_judged'); both.add(want)
            if got != want and len(bad) < 3: bad.append({'x': x, 'text_holds': got, 'box_holds': want})
        obs.check(not bad, 'text:symbolic_bounds text holds exactly inside the box', text=text, lo=lo, hi=hi, witnesses=bad)
        obs.nontrivial = len(both) == 2


# --------------------------------------------------------------------------- exact lattice (strictness at the boundary itself)
import re as _re
from fractions import Fraction as _F
_LIT = _re.compile(r'(?<![A-Za-z_0-9.])(\d+\.?\d*(?:[eE][-+]?\d+)?|\.\d+)')


def _exact_side(expr, env):
    return eval(_LIT.sub(lambda m: "F('%s')" % (m.group(0) + ('0' if m.group(0).endswith('.') else '')), expr), {'F': _F, 'abs': abs, 'min': min, 'max': max, '__builtins__': {}}, env)


def exact_satisfied(text, names, x):
    """truth value of a text in exact rational arithmetic (None where a side divides by zero): no boundary band is needed"""
    env = dict(zip(names, x))
    try:
        return all(T.holds(_exact_side(l, env), c, _exact_side(r, env)) for l, c, r in map(T.split, T.lines(text)))
    except ZeroDivisionError:
        return None


def dyadic_literals(text):
    for m in _LIT.finditer(text):
        q = _F(m.group(0) + ('0' if m.group(0).endswith('.') else ''))
        d = q.denominator
        if d & (d - 1) or d > 2 ** 20 or abs(q) > 2 ** 30: return False
    return True


def run_exact(rng, obs):
    """small systems whose coefficients and constants are dyadic rationals, judged in exact arithmetic on a half-integer lattice and at points
    constructed exactly ON each boundary: strict and non-strict comparators differ only there"""
    from mystic.symbolic import simplify
    n = rng.randint(1, 3)
    variables, names = names_for(rng, n)
    C = [1.0, 2.0, 4.0, 0.5, -1.0, -2.0, -4.0, -0.5, -1.0, -2.0]
    form = rng.choice(['linear', 'linear', 'linear', 'quot', 'prod'] if n >= 2 else ['linear'])
    lines, used = [], set()
    if form == 'linear':
        for _ in range(rng.randint(1, min(3, n + 1))):
            a = [rng.choice(C) if rng.random() < 0.7 else 0.0 for _ in range(n)]
            if not any(a): a[rng.randrange(n)] = rng.choice(C)
            homogeneous = n >= 2 and rng.random() < 0.25
            if homogeneous:          # xi - xj CMP 0 and the like: coefficients summing to zero, no constant
                a = [0.0] * n
                i0, j0 = rng.sample(range(n), 2)
                c0 = rng.choice([1.0, -1.0, 2.0, -2.0, 0.5, -4.0]); a[i0], a[j0] = c0, -c0
            key = tuple(c / next(v for v in a if v) for c in a)        # lines over one and the same (scaled) expression are the business of the mirror classes
            if key in used: continue
            used.add(key)
            b = 0.0 if homogeneous else rng.choice([0.0, 1.0, -3.0, 2.5, 0.5, -0.5, 6.0])
            lines.append('%s %s %s' % (' + '.join('%s*%s' % (fmt(c), v) for c, v in zip(a, names) if c != 0), rng.choice(['<', '>', '<=', '>=', '<', '>']), fmt(b)))
    else:
        i, j = rng.sample(range(n), 2)
        c = rng.choice(C); d = rng.choice([4.0, -2.0, 1.0, 0.5, -8.0])
        cmp = rng.choice(['<', '>', '<=', '>='])
        lines.append(('%s*%s/%s %s %s' if form == 'quot' else '%s*%s*%s %s %s') % (fmt(c), names[i], names[j], cmp, fmt(d)))
    text = '\n'.join(lines)
    obs.desc = {'text': text, 'variables': variables if isinstance(variables, str) else names, 'form': form}
    if form != 'linear' and rng.random() < 0.6:
        g_ = [_F(k, 2) for k in range(-12, 13)]
        single_case_first(obs, rng, text, variables, names, [[rng.choice(g_) for _ in range(n)] for _ in range(150)], exact=True)
    try:
        res = simplify(text, variables=variables, all=True)
    except Exception as e:
        obs.skip('simplify raised %s' % type(e).__name__); obs.event('simplify_raised'); return
    cases = res if isinstance(res, tuple) else (res,)
    if not all(isinstance(cc, str) and cc.strip() for cc in cases):
        obs.skip('no result'); return
    if not all(dyadic_literals(cc) for cc in cases):
        obs.event('output_not_exactly_representable'); obs.skip('output coefficients are not dyadic'); return
    grid = [_F(k, 2) for k in range(-12, 13)]
    pts = [[rng.choice(grid) for _ in range(n)] for _ in range(250)]
    # points exactly on a boundary of the INPUT: solve each line for one of its variables at a lattice point (exact rational arithmetic)
    onb = 0
    for ln in lines:
        l, cmp, r = T.split(ln)
        for _ in range(40):
            x = [rng.choice(grid) for _ in range(n)]
            k = rng.randrange(n)
            if names[k] not in l: continue
            try:
                e0 = dict(zip(names, x)); e0[names[k]] = _F(0); f0 = _exact_side(l, e0) - _exact_side(r, e0)
                e1 = dict(e0); e1[names[k]] = _F(1); f1 = _exact_side(l, e1) - _exact_side(r, e1)
                if f1 == f0: continue
                x[k] = -f0 / (f1 - f0)                       # affine in x_k for the linear and product forms
                ek = dict(zip(names, x))
                if _exact_side(l, ek) != _exact_side(r, ek): continue      # (quotient form: not affine in the divisor)
            except ZeroDivisionError:
                continue
            pts.append(x); onb += 1
    seen, bad, judged_on_boundary = set(), [], 0
    for x in pts:
        a = exact_satisfied(text, names, x)
        bs = [exact_satisfied(cc, names, x) for cc in cases]
        if a is None or any(b is None for b in bs):
            obs.event('points_not_judged'); continue
        obs.event('points_judged'); seen.add(a)
        env = dict(zip(names, x))
        onbd = any(_exact_side(T.split(ln)[0], env) == _exact_side(T.split(ln)[2], env) for ln in lines)
        if onbd: judged_on_boundary += 1
        if a != any(bs) and len(bad) < 3:
            bad.append({'x': [float(v) for v in x], 'input_holds': a, 'cases_hold': bs, 'on_a_boundary_of_the_input': onbd})
    obs.event('exact_boundary_points_judged', judged_on_boundary)
    obs.check(not bad, 'same:the rewritten system is satisfied by exactly the same points as the input', text=text, cases=list(cases), witnesses=bad, exact_arithmetic=True,
              merged_to_not_equal=any('!=' in cc for cc in cases), equalities_in=0, equalities_out=[sum(1 for l in T.lines(cc) if T.split(l)[1] in ('=', '==')) for cc in cases])
    obs.nontrivial = len(seen) == 2 and judged_on_boundary >= 3
    obs.notes = {'cases': list(cases), 'boundary_points': judged_on_boundary}


def single_case_first(obs, rng, text, variables, names, pts, exact=False):
    """simplify WITHOUT all=True returns one of the cases: every point that satisfies it must satisfy the input (a case is a sufficient
    condition).  Called before the all=True call on the same text: the two calls must not interfere."""
    from mystic.symbolic import simplify
    try:
        one = simplify(text, variables=variables)
    except Exception:
        return
    if not isinstance(one, str) or not one.strip():
        return
    bad = []
    for x in pts:
        b = exact_satisfied(one, names, x) if exact else T.satisfied3(one, names, x)
        if b is not True: continue
        a = exact_satisfied(text, names, x) if exact else T.satisfied3(text, names, x)
        if a is False and len(bad) < 3:
            bad.append({'x': [float(v) for v in x], 'input_holds': False, 'cases_hold': [True]})
    obs.event('single_case_calls')
    obs.check(not bad, 'same:a single returned case (all=False) admits only points of the input', text=text, case=one, witnesses=bad)


def run_hostile(kind, rng, obs):
    """classes outside the stated preconditions of the property's first sentence, kept to re-observe the recorded findings"""
    from mystic.symbolic import simplify
    if kind == 'zero_rhs':
        c = rng.choice([1.0, 2.0, -3.0]); cmp = rng.choice(['>=', '<=', '>', '<'])
        text = '%s*x0*x1 %s 0' % (fmt(c), cmp); names = ['x0', 'x1']
    else:
        c = rng.choice([4.0, 2.0, -1.0]); text = '%s*x0 < 0\n%s*x0 > 0' % (fmt(c), fmt(c)); names = ['x0']
    obs.desc = {'text': text, 'kind': kind}
    try:
        res = simplify(text, all=True)
    except Exception as e:
        obs.skip('simplify raised'); return
    cases = res if isinstance(res, tuple) else (res,)
    bad = []
    for _ in range(200):
        x = [rng.gauss(0, 2) for _ in names]
        a = T.satisfied3(text, names, x); bs = [T.satisfied3(cc, names, x) for cc in cases]
        if a is None or any(b is None for b in bs): continue
        obs.event('points_judged')
        if a != any(bs) and len(bad) < 3: bad.append({'x': x, 'input_holds': a, 'cases_hold': bs})
    if bad:
        obs.violation('same:the rewritten system is satisfied by exactly the same points as the input', text=text, cases=list(cases), witnesses=bad, hostile=kind,
                      single_case=len(cases) == 1, merged_to_not_equal=any('!=' in cc for cc in cases))
    else:
        obs.event('assert:same')
    obs.nontrivial = True
    obs.notes = {'cases': list(cases)}


def run_case(cls, idx, rng, obs):
    import warnings
    warnings.simplefilter('ignore')
    np.seterr(all='ignore')
    if cls == 'hostile_zero_rhs': return run_hostile('zero_rhs', rng, obs)
    if cls == 'hostile_contradiction': return run_hostile('contradiction', rng, obs)
    return {'linear': run_linear, 'rational': run_rational, 'solve': run_solve, 'matrix_text': run_matrix_text, 'mirror_pairs': run_mirror, 'named_constants': run_named_constants, 'exact_lattice': run_exact}[cls](rng, obs)
