"""C05 - stopping discipline: limits, termination and exit requests are honoured."""
import os, shutil
import numpy as np
from .. import apiprog as A, env

PROPERTY = 'C05'
LEVEL = 'exploration'
TECHNIQUE = 'history + ledger model: every Step (also inside Solve) is bracketed; stop conditions are evaluated independently at Step entry from the harness ledger of limits (total vs new=True), its own termination object and real SIGINT exit requests'
RULE = ('case = (solver, termination tree, program over Step/Solve/SetEvaluationLimits(total|new)/SetTermination/Set*/exit requests delivered by real '
        'SIGINT inside a cost call or a callback); non-trivial = the run was stopped by a limit or an exit request (not convergence), or continued after '
        'a stop; distinct by canonical JSON of the program')
ASSUMPTIONS = ['"Solve always returns" is restated as bounded progress: the number of Steps inside Solve is bounded by the limits in force (+ slack); a watchdog firing is inconclusive',
               'limits are compared with the real iteration and cost-call counts kept by the harness',
               'wall-clock time plays no role (TimeLimits is not used)']
CLASSES = {'programs': {'quick': 2880, 'thorough': 18000}, 'default_limits': {'quick': 480, 'thorough': 3000}, 'wrappers': {'quick': 1200, 'thorough': 9000},
           'ensemble_wrappers': {'quick': 480, 'thorough': 4800}}
MIN_EVENTS = {'quick': {'assert:c05': 3000, 'stop_condition_held_at_entry': 300, 'iterations': 1500}}
CASE_TIMEOUT = 120


def run_case(cls, idx, rng, obs):
    import warnings
    warnings.simplefilter('ignore')
    np.seterr(all='ignore')
    if cls == 'wrappers':
        return run_wrapper(rng, obs)
    if cls == 'ensemble_wrappers':      # lattice / buckshot / sparsity one-liners: the warnflag names the limit that the reported member actually reached
        from .c09 import run_wrappers
        real_check = obs.check
        def only_warnflag(ok, clause, **kw):       # (the other clauses of that workload belong to C09 and are judged there)
            if 'generation limit' in clause: return real_check(ok, clause.replace('ens:every member honours the ensemble\'s generation limit', 'c05:the warnflag of an ensemble wrapper names the limit that was reached'), **kw)
            return True
        obs.check = only_warnflag
        try: r = run_wrappers(rng, obs)
        finally: del obs.check
        obs.event('assert:c05', 1); obs.event('iterations', 1)
        return r
    cfg = A.gen_default_limits_program(rng) if cls == 'default_limits' else A.gen_program(rng, 'c05')
    obs.desc = cfg
    tmp = os.path.join(env.OUT, 'c05', '%d-%d' % (idx, os.getpid()))
    os.makedirs(tmp, exist_ok=True)
    try:
        led, st = A.run_program(cfg, obs, 'c05', tmp)
    finally:
        shutil.rmtree(tmp, ignore_errors=True)
    obs.desc = {k: v for k, v in cfg.items() if k != 'ops_done'}
    obs.nontrivial = st['stopped_by_limit'] or st['continued_after_stop'] or any(o[0] == 'solve_exit' for o in cfg['ops'])


def run_wrapper(rng, obs):
    """warnflag of the scipy-style wrappers: 1 <=> funcalls >= maxfun, 2 <=> iter >= maxiter (and not 1), 0 <=> neither"""
    from mystic.solvers import fmin, fmin_powell, diffev, diffev2
    from .. import solverkit as K
    which = rng.choice(['fmin', 'fmin_powell', 'diffev', 'diffev2'])
    dim = rng.randint(1, 4)
    use_defaults = which.startswith('diffev') and rng.random() < 0.3
    if use_defaults: dim = rng.randint(1, 2)
    cost_spec = K.gen_cost(rng, dim, ['sphere', 'illquad', 'rosen', 'abs'])
    probe = K.CostProbe(K.make_cost(cost_spec))
    x0 = [round(rng.uniform(-3, 3), 2) for _ in range(dim)]
    maxiter = rng.choice([None, 0, 1, 2, 5, 30, 400]); maxfun = rng.choice([None, 1, 5, 40, 2000])
    if use_defaults: maxiter = None; maxfun = rng.choice([None, None, 2000])
    kw = {'disp': 0, 'full_output': 1, 'maxiter': maxiter, 'maxfun': maxfun}
    eff_maxiter, eff_maxfun = maxiter, maxfun
    if which.startswith('diffev'):
        kw['npop'] = rng.choice([4, 6]);
        if maxiter is None:
            if dim * kw['npop'] * 10 <= 120 and (use_defaults or rng.random() < 0.7):
                # limits left to their documented defaults (nDim*nPop*10 generations, nDim*nPop*1000 evaluations): the flag must name the one reached;
                # an offset keeps the default VTR termination from firing first
                off = K.make_cost(cost_spec); probe.f = (lambda x, off=off: off(x) + 7.0)
                eff_maxiter = dim * kw['npop'] * 10
                if maxfun is None: eff_maxfun = dim * kw['npop'] * 1000
                obs.event('wrapper_default_limits')
            else: kw['maxiter'] = maxiter = eff_maxiter = 60
    elif which == 'fmin' and (maxiter is None or maxfun is None) and dim <= 2 and rng.random() < 0.6:
        # fmin with a limit left to its documented default (nDim*nPop*200, nPop = 1 for Nelder-Mead) and tolerances that can never be met:
        # the run ends on a limit and the flag must name it   (Powell's line search does not accept such tolerances: not driven this way)
        off = K.make_cost(cost_spec); probe.f = (lambda x, off=off: off(x) + 7.0)
        kw['xtol'] = kw['ftol'] = -1.0
        default = dim * 200
        if maxiter is None: eff_maxiter = default
        if maxfun is None: eff_maxfun = default
        obs.event('wrapper_default_limits')
    if which in ('fmin', 'fmin_powell'):
        # a limit left at None is the documented default (nDim*nPop*200 for Nelder-Mead, nDim*1000 for Powell; nPop = 1): a long run may well reach it
        default = dim * (200 if which == 'fmin' else 1000)
        if eff_maxiter is None: eff_maxiter = default
        if eff_maxfun is None: eff_maxfun = default
    out = {'fmin': fmin, 'fmin_powell': fmin_powell, 'diffev': diffev, 'diffev2': diffev2}[which](probe, x0, **kw)
    it, fc, wf = int(out[2]), int(out[3]), int(out[4])
    obs.desc = {'wrapper': which, 'dim': dim, 'cost': cost_spec, 'x0': x0, 'maxiter': maxiter, 'maxfun': maxfun, 'tolerances': kw.get('xtol')}
    obs.check(fc == probe.n, 'c05:wrapper funcalls equals the real number of cost calls', wrapper=which, observed=fc, expected=probe.n)
    maxiter_given, maxfun_given = maxiter, maxfun
    maxiter, maxfun = eff_maxiter, eff_maxfun
    if wf == 1:
        obs.check(maxfun is not None and fc >= maxfun, 'c05:warnflag 1 means the evaluation limit was reached', wrapper=which, funcalls=fc, maxfun=maxfun, iter=it, maxiter=maxiter)
    elif wf == 2:
        obs.check(maxiter is not None and it >= maxiter, 'c05:warnflag 2 means the iteration limit was reached', wrapper=which, funcalls=fc, maxfun=maxfun, iter=it, maxiter=maxiter)
    else:
        obs.check(not (maxfun is not None and fc >= maxfun) and not (maxiter is not None and it >= maxiter),
                  'c05:warnflag 0 means neither limit was reached', wrapper=which, funcalls=fc, maxfun=maxfun, iter=it, maxiter=maxiter, warnflag=wf)
    if maxiter is not None:
        obs.check(it <= maxiter, 'c05:wrapper iterations never exceed maxiter', wrapper=which, iter=it, maxiter=maxiter)
    obs.event('iterations', it)
    obs.nontrivial = wf in (1, 2)
    obs.notes = {'iter': it, 'funcalls': fc, 'warnflag': wf}
