"""C02 - strict ranges: the objective is never evaluated outside the box."""
import math
import numpy as np
from .. import solverkit as K, solvermon as M

PROPERTY = 'C02'
LEVEL = 'exploration'
TECHNIQUE = 'runtime monitoring: in-call assertion on every cost argument against the harness ledger of installed ranges; population checks after Set*InitialPoints'
RULE = ('case = (solver, box shape incl. degenerate/one-sided/infinite/None entries, tight x clip mode, optional constraint incl. ones that '
        'push points out of the box, installation time: before the first Step / after k Steps / changed or removed+reinstalled later); '
        'non-trivial = the bounds guard intercepted >= 1 out-of-box candidate or the start had to be moved into the box; distinct by canonical JSON')
ASSUMPTIONS = ['None entries mean the documented default +-1e3', 'only evaluation-level claims are made after a mid-run change of ranges',
               'tight=False with clip set is the one illegal mode and is excluded']
CLASSES = {
    'ranges': {'quick': 2000, 'thorough': 12000},
    'initial_points': {'quick': 1600, 'thorough': 8000},
    'wrappers': {'quick': 800, 'thorough': 6000},
}
MIN_EVENTS = {'quick': {'assert:c02': 20000, 'box_rejections': 1000, 'assert:init': 400}}
CASE_TIMEOUT = 120


def run_case(cls, idx, rng, obs):
    import warnings
    warnings.simplefilter('ignore')
    np.seterr(all='ignore')
    if cls == 'initial_points':
        return run_init(rng, obs)
    if cls == 'wrappers':
        from .c01 import run_wrapper
        return run_wrapper(rng, obs, focus='c02')
    cfg = M.gen_cfg(rng, 'c02')
    obs.desc = cfg
    run = M.Run(cfg, obs, 'c02')
    start_outside = not K.in_box(cfg['x0'], cfg['box'])
    with K.BoundsGuardTap() as tap:
        try:
            run.go()
        except OverflowError as e:
            # astronomically large candidates (clip=False on a one-sided box draws from [lo, 1e300]) overflow user arithmetic
            obs.skip('OverflowError in user-level arithmetic: %s' % e)
            return
        except ZeroDivisionError as e:
            import traceback
            tb = traceback.format_exc()
            b = cfg['box']
            usable = [i for i in range(cfg['dim']) if (math.isfinite(b['lo'][i]) or math.isfinite(b['hi'][i])) and b['lo'][i] != b['hi'][i]]
            obs.violation('c02:SetStrictRanges raised while building the bounds constraint', error='ZeroDivisionError',
                          in_symbolic='symbolic.py' in tb or '_symbolic.py' in tb, usable_sides=len(usable),
                          mode=[b.get('tight'), b.get('clip')], lo=b['lo'], hi=b['hi'])
            return
    obs.event('box_rejections', tap.rejected)
    obs.nontrivial = tap.rejected > 0 or start_outside
    obs.notes['box_rejections'] = tap.rejected
    obs.notes['start_outside'] = start_outside


def run_init(rng, obs):
    """initial points requested within given limits are generated within them"""
    cfg = K.gen_solver_cfg(rng, dims=(1, 6))
    s = K.new_solver(cfg)
    dim = cfg['dim']
    lo = [round(rng.uniform(-5, 5), 2) for _ in range(dim)]
    hi = [l + rng.choice([0.0, 0.5, 3.0, 100.0]) for l in lo]
    which = rng.choice(['random', 'x0'])
    obs.desc = dict(cfg, which=which, lo=lo, hi=hi)
    if which == 'random':
        glo, ghi = list(lo), list(hi)
        if rng.random() < 0.3:          # None entries stand for the solver's documented default limits
            j = rng.randrange(dim)
            if rng.random() < 0.5: glo[j] = None; lo[j] = float(s._defaultMin[0]); hi[j] = max(hi[j], lo[j])
            else: ghi[j] = None; hi[j] = float(s._defaultMax[0])
            obs.desc['none_entries'] = True
        s.SetRandomInitialPoints(glo, ghi)
        pop = [[float(v) for v in m] for m in s.population]
        ok = all(l <= v <= h for m in pop for v, l, h in zip(m, lo, hi))
        obs.check(ok, 'init:SetRandomInitialPoints(lo,hi) generates every member within [lo,hi]', lo=lo, hi=hi, pop=pop[:4], solver=cfg['solver'])
        obs.nontrivial = len(pop) > 1
    else:
        x0 = cfg['x0']
        r = rng.choice([0.05, 0.5, 0.0])
        rv = [r] * dim
        if rng.random() < 0.3:          # one radius per coordinate
            rv = [rng.choice([0.05, 0.5, 0.0, 2.0]) for _ in range(dim)]
            s.SetInitialPoints(list(x0), radius=list(rv))
        else:
            s.SetInitialPoints(list(x0), radius=r)
        pop = [[float(v) for v in m] for m in s.population]
        obs.check(pop[0] == [float(v) for v in x0], 'init:SetInitialPoints puts x0 first', x0=x0, first=pop[0])
        def hull(v, r):
            a, b = v * (1 - r), v * (1 + r)
            if a == 0: a = -r
            if b == 0: b = r
            return min(a, b), max(a, b)
        ok = all(hull(c, rr)[0] <= v <= hull(c, rr)[1] for m in pop[1:] for v, c, rr in zip(m, x0, rv))
        obs.check(ok, 'init:SetInitialPoints keeps the other members within x0*(1+-radius)', x0=x0, radius=rv, pop=pop[:4], solver=cfg['solver'])
        obs.desc['radius'] = rv
        obs.nontrivial = len(pop) > 1 and r > 0
    obs.notes = {'npop': len(pop)}
