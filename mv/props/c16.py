"""C16 - constraint transforms land in their target set and leave conforming input alone.

Every decorator is applied to the identity on generated inputs; a target-set predicate
per decorator (written from the docstrings, sharing no code with mystic) is evaluated
on the output: selected entries in the target set, unselected / conforming entries
bit-equal to the input, second application changes nothing, container type preserved."""
import math
import numpy as np

PROPERTY = 'C16'
LEVEL = 'exploration'
TECHNIQUE = 'runtime contracts (post-conditions per decorator: target-set membership, frame condition, idempotence, container type) on generated inputs'
RULE = ('case = (decorator, its settings, input vector as list or array, index selection); non-trivial = at least one selected '
        'entry was outside the target set AND at least one entry had to stay untouched (unselected or already conforming); '
        'distinct by canonical JSON of the case')
ASSUMPTIONS = ['statistics targets (mean/variance/spread/sum) are reached within rel 1e-9 and need non-degenerate input',
               'for a mixed valid/out-of-range index tuple only the frame condition on unaddressed entries is judged',
               'impose_as pair sets are forests when an offset is used (acyclic, one parent per tracked entry)',
               'unique and clip=False are randomised: idempotence is "a second application changes nothing"']
CLASSES = {
    'bounds': {'quick': 19200, 'thorough': 192000},
    'grid': {'quick': 24000, 'thorough': 240000},       # discrete, integers, rounded, precision
    'unique': {'quick': 7200, 'thorough': 72000},
    'order': {'quick': 14400, 'thorough': 144000},      # sorting, monotonic
    'pin': {'quick': 14400, 'thorough': 144000},        # impose_at, impose_as
    'stats': {'quick': 9600, 'thorough': 96000},       # with_mean/variance/std/spread, normalized
    'rewrite': {'quick': 14400, 'thorough': 144000},    # masked, partial, synchronized, clipped, suppressed
    'reconfigure': {'quick': 6000, 'thorough': 60000},   # setters of the decorated functions (index, samples, digits, nearest)
}
MIN_EVENTS = {'quick': {'assert:target': 6000, 'assert:frame': 6000, 'assert:idem': 5000, 'assert:type': 5000}}
ident = lambda x: x


def gen_vec(rng, n=None, lo=-10.0, hi=12.0, grid=None):
    n = rng.randint(1, 12) if n is None else n
    out = []
    for _ in range(n):
        r = rng.random()
        if grid and r < 0.35: out.append(float(rng.choice(grid)))
        elif r < 0.5: out.append(float(rng.randint(int(lo), int(hi))))
        elif r < 0.6: out.append(round(rng.uniform(lo, hi), 1))
        else: out.append(rng.uniform(lo, hi))
    return out


def as_container(rng, v):
    return (np.array(v, dtype=float), 'array') if rng.random() < 0.4 else (list(v), 'list')


def tolist(y):
    return [float(v) for v in (y.tolist() if hasattr(y, 'tolist') else y)]


def gen_index(rng, n, allow_neg=True):
    """-> (index argument, set of selected positions or None when only the frame is judged, kind)"""
    r = rng.random()
    if r < 0.3: return None, set(range(n)), 'none'
    if r < 0.45:
        i = rng.randrange(n); return i, {i}, 'single'
    if r < 0.55 and allow_neg:
        i = -rng.randint(1, n); return (i,), {n + i}, 'negative'
    if r < 0.65:
        return (n + rng.randint(0, 3),), set(), 'out_of_range'
    if r < 0.72:
        i = rng.randrange(n); return (i, n + 2), None, 'mixed_out_of_range'
    k = rng.randint(1, n)
    idx = sorted(rng.sample(range(n), k))
    if allow_neg and rng.random() < 0.3:      # the same positions written with mixed signs
        return tuple((i - n) if rng.random() < 0.5 else i for i in idx), set(idx), 'tuple_mixed_sign'
    return tuple(idx), set(idx), 'tuple'


def style(rng, kw, defaults, obs=None):
    """call style: arguments that equal their documented default are left out half of the time (the default must mean the same)"""
    out = dict(kw)
    for k, d in defaults.items():
        if k in out and (out[k] is d or (out[k] == d and type(out[k]) is type(d))) and rng.random() < 0.5:
            del out[k]
            if obs is not None: obs.event('default_argument_calls')
    return out


def reuse(obs, rng, env, who):
    """the decorated function used once more, on another vector of another length: it must answer as a freshly built one does (no state kept
    from the first call)"""
    mk, f, x = env.get('mk'), env.get('f'), env.get('x')
    if mk is None or f is None or x is None: return
    n2 = max(1, len(x) + rng.choice([-2, -1, 1, 2, 3]))
    x2 = gen_vec(rng, n2)
    st = (rng.getstate(), np.random.get_state())
    import random as _r
    gst = _r.getstate()
    try:
        a = f(list(x2))
        _r.setstate(gst); np.random.set_state(st[1])
        b = mk()(list(x2))
    except Exception as e:
        obs.event('reuse_not_applicable'); return
    rng.setstate(st[0])
    obs.check(tolist(a) == tolist(b) or all((p != p and q != q) or p == q for p, q in zip(tolist(a), tolist(b))), 'idem:a decorated function keeps no state between calls (second vector, other length)',
              decorator=who, x=x, x2=x2, reused=tolist(a), fresh=tolist(b))
    obs.event('reuse_calls')


def same_type(obs, x, y, kind, who):
    ok = isinstance(y, np.ndarray) if kind == 'array' else isinstance(y, list)
    obs.check(ok, 'type:container type preserved', decorator=who, given=kind, observed=type(y).__name__)


def frame(obs, x, y, sel, who, **kw):
    """entries outside the selection are bit-equal to the input"""
    if len(y) != len(x):
        obs.check(False, 'frame:length preserved', decorator=who, x=x, y=y, **kw); return
    bad = [i for i in range(len(x)) if i not in sel and not (y[i] == x[i] or (y[i] != y[i] and x[i] != x[i]))]
    obs.check(not bad, 'frame:unselected entries unchanged', decorator=who, x=x, y=y, changed=bad, **kw)


def idem(obs, f, y, who, exact=True, **kw):
    y2 = f(y.copy() if hasattr(y, 'copy') else list(y))
    a, b = tolist(y2), tolist(y)
    ok = a == b if exact else all(abs(p - q) <= 1e-9 * max(1.0, abs(p), abs(q)) for p, q in zip(a, b))
    obs.check(ok, 'idem:a second application changes nothing', decorator=who, once=b, twice=a, **kw)


# --------------------------------------------------------------------------- bounds
def in_some(v, ivals):
    return any(lo <= v <= hi for lo, hi in ivals)


def run_bounds(rng, obs):
    from mystic.constraints import impose_bounds
    x = gen_vec(rng)
    n = len(x)
    nint = rng.choice([1, 1, 2, 3])
    cuts = sorted(rng.sample([-8, -5, -2, 0, 1, 3, 4, 6, 9, 11], 2 * nint))
    ivals = [(float(cuts[2 * i]), float(cuts[2 * i + 1])) for i in range(nint)]
    spec = [tuple(iv) for iv in ivals]
    if nint == 1 and rng.random() < 0.3:          # one-sided
        if rng.random() < 0.5: spec, ivals = [(None, ivals[0][1])], [(-math.inf, ivals[0][1])]
        else: spec, ivals = [(ivals[0][0], None)], [(ivals[0][0], math.inf)]
    if nint == 1 and rng.random() < 0.15:         # degenerate
        spec, ivals = [(ivals[0][0], ivals[0][0])], [(ivals[0][0], ivals[0][0])]
    clip = rng.choice([True, True, False])
    nearest = rng.choice([True, True, False])
    index, sel, ikind = gen_index(rng, n, allow_neg=False)
    barg = spec[0] if (nint == 1 and rng.random() < 0.5) else spec
    if any(not math.isfinite(a) or not math.isfinite(b) for a, b in ivals) and not clip:
        clip = True                                # sampling uniformly from an infinite interval is undefined
    mk = lambda: impose_bounds(barg, **style(rng, dict(index=index, clip=clip, nearest=nearest), dict(index=None, clip=True, nearest=True), obs))(ident); f = mk()
    xc, kind = as_container(rng, x)
    y = f(xc.copy() if kind == 'array' else list(xc))
    obs.desc = {'decorator': 'impose_bounds', 'bounds': spec, 'index': index, 'index_kind': ikind, 'clip': clip,
                'nearest': nearest, 'x': x, 'container': kind}
    same_type(obs, xc, y, kind, 'impose_bounds')
    yl = tolist(y)
    obs.check(tolist(xc) == x, 'frame:input not modified', decorator='impose_bounds')
    judged = sel if sel is not None else set()
    frame(obs, x, yl, judged if sel is not None else set(range(n)) - set(), 'impose_bounds', bounds=spec, index=index) if sel is not None else None
    moved = untouched = 0
    if sel is not None and len(yl) == n:
        for i in range(n):
            if i in sel:
                inside = in_some(x[i], ivals)
                obs.check(in_some(yl[i], ivals), 'target:selected entries end inside the interval(s)', decorator='impose_bounds',
                          bounds=spec, i=i, x=x[i], y=yl[i], clip=clip)
                if inside:
                    untouched += 1
                    obs.check(yl[i] == x[i], 'frame:entries already inside are unchanged', decorator='impose_bounds', i=i, x=x[i], y=yl[i])
                else:
                    moved += 1
                    if clip:
                        ends = [e for iv in ivals for e in iv]
                        obs.check(yl[i] in ends, 'target:clipping puts an outside entry at an interval end', decorator='impose_bounds',
                                  bounds=spec, x=x[i], y=yl[i])
                        if nint == 1:
                            lo, hi = ivals[0]
                            obs.check(yl[i] == (lo if x[i] < lo else hi), 'target:clipping to the nearer end of a single interval',
                                      decorator='impose_bounds', bounds=spec, x=x[i], y=yl[i])
            else:
                untouched += 1
        idem(obs, f, y, 'impose_bounds', bounds=spec, clip=clip)
    obs.nontrivial = moved > 0 and untouched > 0
    if clip: reuse(obs, rng, locals(), 'impose_bounds')
    obs.notes = {'moved': moved, 'untouched': untouched, 'y': yl}


# --------------------------------------------------------------------------- grid-like
def run_grid(rng, obs):
    import mystic.constraints as mc
    which = rng.choice(['discrete', 'integers', 'rounded', 'precision'])
    n = rng.randint(1, 10)
    index, sel, ikind = gen_index(rng, n)
    moved = untouched = 0
    if which == 'discrete':
        samples = sorted(set(rng.choice([-7.0, -3.5, -1.0, 0.0, 0.5, 2.0, 2.5, 4.0, 8.0, 10.0]) for _ in range(rng.randint(1, 6))))
        x = gen_vec(rng, n, grid=samples + [(a + b) / 2 for a, b in zip(samples, samples[1:])])
        given = list(samples)
        if rng.random() < 0.5: rng.shuffle(given)          # the sample set need not be handed over sorted
        mk = lambda: mc.discrete(given, **style(rng, dict(index=index), dict(index=None), obs))(ident); f = mk()
        conf = lambda v: v in samples
        def target(i, xi, yi):
            d = min(abs(xi - s) for s in samples)
            return yi in samples and abs(abs(yi - xi) - d) <= 1e-12 * max(1.0, abs(xi))
        cfg = {'samples': samples}
    elif which == 'integers':
        ints = rng.choice([True, False, float, int])
        x = gen_vec(rng, n)
        mk = lambda: mc.integers(**style(rng, dict(ints=ints, index=index), dict(ints=True, index=None), obs))(ident); f = mk()
        conf = lambda v: v == math.floor(v)
        def target(i, xi, yi):
            return yi == math.floor(yi) and abs(yi - xi) <= 0.5
        cfg = {'ints': repr(ints)}
    else:
        digits = rng.choice([None, 0, 1, 2, 3, -1])
        d = digits or 0
        x = [round(v, rng.choice([0, 1, 2, 5, 9])) if rng.random() < 0.5 else v for v in gen_vec(rng, n, lo=-300, hi=300)]
        mk = lambda: getattr(mc, which)(**style(rng, dict(digits=digits, index=index), dict(digits=None, index=None), obs))(ident); f = mk()
        conf = lambda v: round(v, d) == v
        def target(i, xi, yi):
            return round(yi, d) == yi and abs(yi - xi) <= 0.5 * 10.0 ** (-d) * (1 + 1e-9)
        cfg = {'digits': digits}
    xc, kind = as_container(rng, x)
    if which == 'integers' and cfg['ints'] in ('True', "<class 'int'>") and sel is not None and sel != set(range(n)) and kind == 'array':
        kind = 'list'; xc = list(x)      # an int array cannot keep the unselected fractional entries
    if which == 'integers' and cfg['ints'] in ('True', "<class 'int'>") and sel != set(range(n)):
        # casting the whole vector to int also truncates unselected entries: only whole-vector selection is in scope
        index, sel, ikind = None, set(range(n)), 'none'
        mk = lambda: mc.integers(ints=eval(cfg['ints']) if cfg['ints'] == 'True' else int, index=None)(ident); f = mk()
    y = f(xc.copy() if kind == 'array' else list(xc))
    obs.desc = dict(cfg, decorator=which, index=index, index_kind=ikind, x=x, container=kind)
    same_type(obs, xc, y, kind, which)
    yl = tolist(y)
    if sel is None:
        i_valid = index[0]
        frame(obs, x, yl, {i_valid}, which, index=index)
    else:
        frame(obs, x, yl, sel, which, index=index)
        if len(yl) == n:
            for i in sorted(sel):
                obs.check(target(i, x[i], yl[i]), 'target:selected entry mapped to the nearest member of the target set',
                          decorator=which, cfg=cfg, i=i, x=x[i], y=yl[i])
                if conf(x[i]):
                    untouched += 1
                    obs.check(yl[i] == x[i], 'frame:conforming entries unchanged', decorator=which, cfg=cfg, x=x[i], y=yl[i])
                else:
                    moved += 1
            untouched += n - len(sel)
            idem(obs, f, y, which, cfg=cfg)
    obs.nontrivial = moved > 0 and untouched > 0
    reuse(obs, rng, locals(), 'grid')
    obs.notes = {'moved': moved, 'untouched': untouched, 'y': yl}


# --------------------------------------------------------------------------- unique
def run_unique(rng, obs):
    from mystic.constraints import impose_unique, unique
    mode = rng.choice(['set', 'set', 'int', 'float', 'dict'])
    n = rng.randint(2, 8)
    if mode == 'set':
        allowed = list(range(rng.randint(n, n + 6)))
        x = [rng.choice(allowed[:max(2, n - 1)]) for _ in range(n)]
        full = list(allowed); ok = lambda v: v in allowed
    elif mode == 'int':
        x = [rng.randint(0, 3) for _ in range(n - 1)] + [n + 5]
        full = int; ok = lambda v: float(v).is_integer() and min(x) <= v <= max(x)
    elif mode == 'float':
        x = [float(rng.randint(0, 3)) for _ in range(n - 1)] + [9.5]
        full = float; ok = lambda v: min(x) <= v <= max(x)
    else:
        x = [float(rng.randint(0, 3)) for _ in range(n)]
        full = {'min': -1, 'max': 12}; ok = lambda v: -1 <= v < 12
    f = impose_unique(full if not isinstance(full, dict) else dict(full))(ident) if mode != 'dict' else (lambda v: unique(v, dict(full)))
    y = f(list(x))
    obs.desc = {'decorator': 'impose_unique', 'mode': mode, 'x': x}
    obs.check(isinstance(y, list) and len(y) == n, 'type:container type preserved', decorator='unique', observed=type(y).__name__)
    obs.check(len(set(y)) == len(y), 'target:values pairwise distinct', decorator='unique', x=x, y=y)
    obs.check(all(ok(v) for v in y), 'target:values in the allowed set', decorator='unique', mode=mode, x=x, y=y)
    first = set(); keep = []
    for i, v in enumerate(x):
        if v not in first: first.add(v); keep.append(i)
    obs.check(all(y[i] == x[i] for i in keep), 'frame:first occurrences (already distinct entries) unchanged', decorator='unique', x=x, y=y)
    y2 = (impose_unique(full if not isinstance(full, dict) else dict(full))(ident) if mode != 'dict' else (lambda v: unique(v, dict(full))))(list(y))
    obs.check(list(y2) == list(y), 'idem:a second application changes nothing', decorator='unique', once=y, twice=y2)
    obs.nontrivial = len(keep) < n and len(keep) >= 1
    obs.notes = {'y': y, 'duplicates': n - len(keep)}


# --------------------------------------------------------------------------- order
def run_order(rng, obs):
    import mystic.constraints as mc
    which = rng.choice(['sorting', 'monotonic'])
    asc = rng.choice([True, True, False])
    outer = rng.choice([False, False, True])
    n = rng.randint(1, 10)
    x = gen_vec(rng, n)
    if rng.random() < 0.3: x = sorted(x, reverse=not asc)
    r = rng.random()
    if r < 0.45: index, sel = None, list(range(n))
    else:
        k = rng.randint(1, n)
        sel = rng.sample(range(n), k)                     # order of the index tuple must not matter
        # negative indices address positions from the end; mixed signs must select the same positions
        index = tuple((i - n) if rng.random() < 0.3 else i for i in sel); sel = sorted(sel)
    mk = lambda: getattr(mc, which)(**style(rng, dict(ascending=asc, outer=outer, index=index), dict(ascending=True, outer=False, index=None), obs))(ident); f = mk()
    xc, kind = as_container(rng, x)
    y = f(xc.copy() if kind == 'array' else list(xc))
    obs.desc = {'decorator': which, 'ascending': asc, 'outer': outer, 'index': index, 'x': x, 'container': kind}
    same_type(obs, xc, y, kind, which)
    yl = tolist(y)
    obs.check(tolist(xc) == x, 'frame:input not modified', decorator=which, outer=outer, index=index) if not outer else None
    frame(obs, x, yl, set(sel), which, index=index)
    if len(yl) == n:
        sub_x = [x[i] for i in sel]; sub_y = [yl[i] for i in sel]
        ordered = all((a <= b) if asc else (a >= b) for a, b in zip(sub_y, sub_y[1:]))
        obs.check(ordered, 'target:selected subsequence is in the requested order', decorator=which, asc=asc, x=x, y=yl, index=index)
        if which == 'sorting':
            obs.check(sorted(sub_y) == sorted(sub_x), 'target:sorting permutes the selected entries', x=x, y=yl, index=index)
        else:
            acc = []
            for v in sub_x:
                acc.append(v if not acc else (max(acc[-1], v) if asc else min(acc[-1], v)))
            obs.check(sub_y == acc, 'target:monotonic is the running max/min of the selected entries', x=x, y=yl, index=index, expected=acc)
        was = all((a <= b) if asc else (a >= b) for a, b in zip(sub_x, sub_x[1:]))
        if was:
            obs.check(yl == x, 'frame:already ordered input unchanged', decorator=which, x=x, y=yl)
        idem(obs, f, y, which)
        obs.nontrivial = (not was) and len(sel) < n
    reuse(obs, rng, locals(), 'order')
    obs.notes = {'y': yl}


# --------------------------------------------------------------------------- pin / track
def run_pin(rng, obs):
    from mystic.constraints import impose_at, impose_as
    n = rng.randint(1, 9)
    x = gen_vec(rng, n)
    if rng.random() < 0.5:
        k = rng.randint(1, n + 2)
        idx = sorted(rng.sample(range(n + 3), min(k, n + 3)))
        order = rng.choice(['ascending', 'ascending', 'descending', 'shuffled'])   # each index keeps ITS target whatever the order of the selection
        if order == 'descending': idx = idx[::-1]
        elif order == 'shuffled': rng.shuffle(idx)
        if rng.random() < 0.6:
            target = rng.choice([0.0, 1.5, -99.0]); tv = {i: target for i in idx}
        else:
            target = [float(j) - 0.5 for j in range(len(idx))]; tv = dict(zip(idx, target))
        tgt = target
        if isinstance(target, list) and rng.random() < 0.3: tgt = np.array(target)
        if not isinstance(target, list) and target == 0.0 and rng.random() < 0.5:
            mk = lambda: impose_at(list(idx))(ident); f = mk(); obs.event('default_argument_calls')       # target defaults to 0.0
        else:
            ix_ = list(idx) if rng.random() < 0.7 else tuple(idx)
            mk = lambda: impose_at(ix_, tgt)(ident); f = mk()
        xc, kind = as_container(rng, x)
        y = f(xc.copy() if kind == 'array' else list(xc))
        yl = tolist(y)
        obs.desc = {'decorator': 'impose_at', 'index': idx, 'target': target, 'x': x, 'container': kind, 'order': order, 'target_type': type(tgt).__name__}
        same_type(obs, xc, y, kind, 'impose_at')
        obs.check(tolist(xc) == x, 'frame:input not modified', decorator='impose_at')
        sel = set(i for i in idx if i < n)
        frame(obs, x, yl, sel, 'impose_at', index=idx)
        if len(yl) == n:
            obs.check(all(yl[i] == tv[i] for i in sel), 'target:pinned entries equal the pinned value', x=x, y=yl, index=idx, target=target)
            idem(obs, f, y, 'impose_at')
        obs.nontrivial = any(x[i] != tv[i] for i in sel) and len(sel) < n
    else:
        offset = rng.choice([None, None, 0, 10.0, -2.5])
        nodes = list(range(n + 1))
        pairs = []
        if offset:
            for b in range(1, n + 1):                 # forest: each tracked entry has one parent a < b
                if rng.random() < 0.5: pairs.append((rng.randrange(b), b))
        else:
            for _ in range(rng.randint(1, n + 1)):
                a, b = sorted(rng.sample(nodes, 2)) if n >= 1 else (0, 1)
                pairs.append((a, b))
        pairs = sorted(set(pairs))
        if not pairs: pairs = [(0, 1)]
        mask = set(pairs) if rng.random() < 0.5 else list(pairs)
        mk = (lambda: impose_as(mask, offset)(ident)) if (offset is not None or rng.random() < 0.5) else (lambda: impose_as(mask)(ident)); f = mk()
        xc, kind = as_container(rng, x)
        y = f(xc.copy() if kind == 'array' else list(xc))
        yl = tolist(y)
        off = offset or 0
        obs.desc = {'decorator': 'impose_as', 'pairs': pairs, 'offset': offset, 'x': x, 'container': kind}
        same_type(obs, xc, y, kind, 'impose_as')
        obs.check(tolist(xc) == x, 'frame:input not modified', decorator='impose_as')
        touched = set(i for p in pairs for i in p)
        frame(obs, x, yl, touched, 'impose_as', pairs=pairs)
        if len(yl) == n:
            live = [(a, b) for a, b in pairs if a < n and b < n]
            obs.check(all(abs(yl[b] - (yl[a] + off)) <= 1e-12 * max(1.0, abs(yl[b])) for a, b in live),
                      'target:tracked entry equals its partner (+offset)', pairs=pairs, offset=offset, x=x, y=yl)
            # the common value of a tied group is the original value of one of its members
            if not off:
                groups = {}
                top = max([n] + [i + 1 for p in pairs for i in p])
                parent = list(range(top))       # ties also run through indices beyond the input
                def find(i):
                    while parent[i] != i: i = parent[i]
                    return i
                for a, b in pairs: parent[find(a)] = find(b)
                for i in range(n): groups.setdefault(find(i), []).append(i)
                ok = all(len(g) == 1 or (len(set(yl[i] for i in g)) == 1 and yl[g[0]] in [x[i] for i in g]) for g in groups.values())
                obs.check(ok, 'target:a tied group takes the value of one of its members', pairs=pairs, x=x, y=yl)
            idem(obs, f, y, 'impose_as', exact=False)
            obs.nontrivial = bool(live) and any(abs(x[b] - (x[a] + off)) > 1e-9 for a, b in live) and len(touched & set(range(n))) < n
    reuse(obs, rng, locals(), 'pin')
    obs.notes = {'y': yl}


def run_reconfigure(rng, obs):
    """the decorated functions can be re-targeted through their setters (index, samples, digits, type, clip, nearest): after a setter call the
    function must behave as one freshly built with the new setting - for inputs of the SAME length as before too (nothing remembered)"""
    import mystic.constraints as mc
    which = rng.choice(['discrete', 'integers', 'rounded', 'precision', 'sorting', 'monotonic', 'impose_bounds'])
    n = rng.randint(2, 9)
    def idx():
        r = rng.random()
        if r < 0.25: return None
        return tuple(sorted(rng.sample(range(n), rng.randint(1, n))))
    A, B = idx(), idx()
    x1, x2 = gen_vec(rng, n), gen_vec(rng, n)
    steps = []
    if which == 'discrete':
        S1 = sorted(set(rng.choice([-7.0, -3.5, -1.0, 0.0, 0.5, 2.0, 2.5, 4.0, 8.0]) for _ in range(rng.randint(1, 5))))
        S2 = sorted(set(rng.choice([-6.0, -2.0, 1.0, 3.0, 7.5]) for _ in range(rng.randint(1, 4))))
        if rng.random() < 0.6: rng.shuffle(S1); rng.shuffle(S2)          # a sample set is a set: the order it is listed in (constructor or setter) does not matter
        f = mc.discrete(list(S1), index=A)(ident)
        fresh = lambda S, I: mc.discrete(list(S), index=I)(ident)
        cur = {'S': S1, 'I': A}
        ops = [('index', B), ('samples', S2), ('index', A)]
        def apply(op, v):
            if op == 'index': f.index(v); cur['I'] = v
            else: f.samples(list(v)); cur['S'] = v
        build = lambda: fresh(cur['S'], cur['I'])
    elif which == 'integers':
        f = mc.integers(ints=float, index=A)(ident)
        cur = {'I': A}
        ops = [('index', B), ('index', A)]
        def apply(op, v): f.index(v); cur['I'] = v
        build = lambda: mc.integers(ints=float, index=cur['I'])(ident)
    elif which in ('rounded', 'precision'):
        d1, d2 = rng.choice([0, 1, 2]), rng.choice([None, 1, 3, -1])
        f = getattr(mc, which)(digits=d1, index=A)(ident)
        cur = {'I': A, 'D': d1}
        ops = [('index', B), ('digits', d2), ('index', A)]
        def apply(op, v):
            if op == 'index': f.index(v); cur['I'] = v
            else: f.digits(v); cur['D'] = v
        build = lambda: getattr(mc, which)(digits=cur['D'], index=cur['I'])(ident)
    elif which in ('sorting', 'monotonic'):
        asc = rng.choice([True, False])
        f = getattr(mc, which)(ascending=asc, index=A)(ident)
        cur = {'I': A}
        ops = [('index', B), ('index', A)]
        def apply(op, v): f.index(v); cur['I'] = v
        build = lambda: getattr(mc, which)(ascending=asc, index=cur['I'])(ident)
    else:
        lo = float(rng.choice([-5, -2, 0])); hi = lo + float(rng.choice([1, 3, 6]))
        f = mc.impose_bounds((lo, hi), index=A, clip=True, nearest=True)(ident)
        cur = {'N': True}
        ops = [('nearest', False), ('nearest', True)]
        def apply(op, v): f.nearest(v); cur['N'] = v
        build = lambda: mc.impose_bounds((lo, hi), index=A, clip=True, nearest=cur['N'])(ident)
    obs.desc = {'decorator': which, 'index_before': A, 'index_after': B, 'x1': x1, 'x2': x2, 'n': n}
    def same(a, b):
        a, b = tolist(a), tolist(b)
        return len(a) == len(b) and all(p == q or (p != p and q != q) for p, q in zip(a, b))
    y = f(list(x1)); z = build()(list(x1))
    obs.check(same(y, z), 'idem:a decorated function keeps no state between calls (second vector, other length)', decorator=which, phase='before any setter', reused=tolist(y), fresh=tolist(z))
    for op, v in ops:
        apply(op, v); steps.append([op, v if not isinstance(v, tuple) else list(v)])
        for xx in (x2, x1):
            y = f(list(xx)); z = build()(list(xx))
            obs.check(same(y, z), 'target:after a setter call the decorated function behaves as one freshly built with the new setting', decorator=which, setters=steps,
                      x=xx, reconfigured=tolist(y), fresh=tolist(z))
    obs.event('setter_calls', len(ops))
    obs.nontrivial = A != B
    obs.notes = {'setters': steps}


# --------------------------------------------------------------------------- statistics
def run_stats(rng, obs):
    import mystic.constraints as mc
    which = rng.choice(['with_mean', 'with_variance', 'with_std', 'with_spread', 'normalized'])
    n = rng.randint(2, 9)
    x = gen_vec(rng, n)
    if len(set(x)) < 2: x[0] += 1.25
    if which == 'normalized' and abs(sum(x)) < 0.5: x[0] += 3.0
    if which in ('with_variance', 'with_std', 'with_spread') and rng.random() < 0.15:
        off = rng.choice([1e5, -3e5]); x = [v + off for v in x]          # entries sharing a large common offset: the spread statistics do not depend on it
    target = rng.choice([1.0, 5.0, 0.5, 12.0])
    if which == 'with_mean': target = rng.choice([0.0, -3.0, 5.0])
    mean = lambda v: sum(v) / len(v)
    var = lambda v: sum((a - mean(v)) ** 2 for a in v) / len(v)
    stat = {'with_mean': mean, 'with_variance': var, 'with_std': lambda v: var(v) ** 0.5,
            'with_spread': lambda v: max(v) - min(v), 'normalized': lambda v: sum(v)}[which]
    mk = lambda: getattr(mc, which)(target)(ident); f = mk()
    if rng.random() < 0.25:                         # conforming input: build one by applying the reference transform
        if which == 'with_mean': x = [a - mean(x) + target for a in x]
        elif which == 'normalized': x = [a * target / sum(x) for a in x]
        elif which == 'with_spread': s = target / (max(x) - min(x)); m = mean(x); x = [(a - m) * s + m for a in x]
        else:
            tv = target if which == 'with_variance' else target ** 2
            s = (tv / var(x)) ** 0.5; m = mean(x); x = [(a - m) * s + m for a in x]
    y = f(list(x))
    yl = tolist(y)
    obs.desc = {'decorator': which, 'target': target, 'x': x}
    got = stat(yl)
    obs.check(abs(got - target) <= 1e-9 * max(1.0, abs(target)), 'target:requested statistic reached', decorator=which,
              target=target, observed=got, x=x, y=yl)
    obs.check(isinstance(y, list) and len(yl) == n, 'type:container type preserved', decorator=which, observed=type(y).__name__)
    was = abs(stat(x) - target) <= 1e-12 * max(1.0, abs(target))
    if was:
        obs.check(all(abs(a - b) <= 1e-9 * max(1.0, abs(a)) for a, b in zip(yl, x)), 'frame:conforming input unchanged', decorator=which, x=x, y=yl)
    if which in ('with_variance', 'with_std', 'with_spread'):
        obs.check(abs(mean(yl) - mean(x)) <= 1e-9 * max(1.0, abs(mean(x))), 'frame:the mean is kept', decorator=which, x=x, y=yl)
    if which == 'with_mean':
        obs.check(abs((max(yl) - min(yl)) - (max(x) - min(x))) <= 1e-9 * max(1.0, max(x) - min(x)), 'frame:the spread is kept', x=x, y=yl)
    idem(obs, f, y, which, exact=False)
    obs.nontrivial = not was and abs(stat(x) - target) > 0.01 * max(1.0, abs(target))
    reuse(obs, rng, locals(), 'stats')
    obs.notes = {'stat_before': stat(x), 'stat_after': got}


# --------------------------------------------------------------------------- input rewriting
def run_rewrite(rng, obs):
    import mystic.tools as mt
    which = rng.choice(['masked', 'partial', 'synchronized', 'clipped', 'suppressed'])
    n = rng.randint(1, 8)
    x = gen_vec(rng, n)
    obs.desc = {'decorator': which, 'x': x}
    if which == 'masked':
        k = rng.randint(1, 3)
        keys = rng.sample(range(n + k), k)          # the mask's own key order (ascending, descending, shuffled) must not matter
        mask = {i: 100.0 + i for i in keys}
        form = rng.choice(['dict', 'dict', 'str'])
        arg = dict(mask) if form == 'dict' else ', '.join('%d:%r' % (i, mask[i]) for i in keys)
        xin = rng.choice([list, tuple])(x)
        y = mt.masked(arg)(ident)(xin)
        obs.desc.update(mask_key_order=keys, mask_form=form, container=type(xin).__name__)
        obs.check(type(y) is type(xin), 'type:container type preserved', decorator='masked', observed=type(y).__name__, expected=type(xin).__name__)
        exp = list(x)
        for i in sorted(mask): exp.insert(i, mask[i])
        obs.desc['mask'] = mask
        obs.check(list(y) == exp, 'target:masked inserts exactly the addressed entries', mask=mask, x=x, y=list(y), expected=exp)
        obs.check([v for j, v in enumerate(y) if j not in mask] == x, 'frame:original entries keep their order and value', mask=mask, x=x, y=list(y))
        obs.event('assert:idem')
        obs.nontrivial = True
    elif which == 'partial':
        keys = rng.sample(range(n + 2), rng.randint(1, min(3, n + 2)))
        mask = {i: -50.0 - i for i in keys}
        mk = lambda: mt.partial(dict(mask))(ident); f = mk()
        y = f(list(x))
        sel = set(i for i in mask if i < n)
        obs.desc['mask'] = mask
        frame(obs, x, list(y), sel, 'partial', mask=mask)
        obs.check(all(y[i] == mask[i] for i in sel), 'target:partial fixes exactly the addressed entries', mask=mask, x=x, y=list(y))
        idem(obs, f, list(y), 'partial'); obs.event('assert:type')
        obs.nontrivial = bool(sel) and len(sel) < n
    elif which == 'synchronized':
        if n < 2: x = x + [x[0] + 1.0]; n = 2; obs.desc['x'] = x
        # documented forms: {i: j}, {i: (j, number)}, {i: (j, callable)}, negative tracked indices, several entries (unordered: no entry's
        # target is another entry's source), entries whose index lies beyond the vector (ignored)
        k = rng.randint(1, min(2, n // 2))
        idx = rng.sample(range(n), 2 * k)
        targets, sources = idx[:k], idx[k:]
        mask, want, shown = {}, {}, {}
        for i, j in zip(targets, sources):
            form = rng.choice(['plain', 'plain', 'number', 'callable', 'negative'])
            if form == 'plain': mask[i] = j; want[i] = x[j]
            elif form == 'negative': mask[i] = j - n; want[i] = x[j]
            elif form == 'number':
                sc = rng.choice([2.0, -1.0, 0.5, 2]); mask[i] = (j, sc); want[i] = sc * x[j]
            else:
                a = rng.choice([2.0, -3.0]); mask[i] = (j, (lambda v, a=a: a * v + 1.0)); want[i] = a * x[j] + 1.0
            shown[str(i)] = [j, form]
        if rng.random() < 0.2: mask[n + rng.randint(0, 2)] = 0; shown['beyond'] = True      # addresses nothing
        mk = lambda: mt.synchronized(dict(mask))(ident); f = mk()
        y = f(list(x))
        obs.desc['mask'] = shown
        frame(obs, x, list(y), set(targets), 'synchronized', mask=str(shown))
        obs.check(len(y) == n and all(y[i] == want[i] for i in targets), 'target:synchronized ties exactly the addressed entry to its partner', mask=str(shown), x=x, y=list(y),
                  expected=[want[i] for i in targets])
        idem(obs, f, list(y), 'synchronized')      # (sources are never targets, so every form is idempotent)
        obs.event('assert:type')
        obs.nontrivial = any(x[i] != want[i] for i in targets) and n > 2
    elif which == 'clipped':
        lo, hi = sorted([rng.choice([-5.0, -1.0, 0.0, 2.0]), rng.choice([3.0, 6.0, 9.0])])
        if rng.random() < 0.2: lo = None
        elif rng.random() < 0.2: hi = None
        exit_ = rng.choice([False, True])
        mk = lambda: mt.clipped(**style(rng, dict(min=lo, max=hi, exit=exit_), dict(min=None, max=None, exit=False), obs))(ident); f = mk()
        y = f(list(x))
        exp = [min(max(v, lo if lo is not None else -math.inf), hi if hi is not None else math.inf) for v in x]
        obs.desc.update({'min': lo, 'max': hi, 'exit': exit_})
        obs.check(list(y) == exp, 'target:clipped clips exactly the entries outside [min,max]', x=x, y=list(y), expected=exp)
        frame(obs, x, list(y), set(i for i in range(n) if exp[i] != x[i]), 'clipped')
        idem(obs, f, list(y), 'clipped'); obs.event('assert:type')
        obs.nontrivial = exp != x and any(a == b for a, b in zip(exp, x))
    else:
        tol = rng.choice([1e-8, 1e-3, 0.5])
        x = [v * rng.choice([1.0, 1e-4, 1e-9, 0.1]) for v in x]
        exit_ = rng.choice([False, True])
        clip = rng.random() >= 0.3
        mk = lambda: mt.suppressed(**style(rng, dict(tol=tol, exit=exit_, clip=clip), dict(tol=1e-8, exit=False, clip=True), obs))(ident); f = mk()
        y = f(list(x))
        small = set(i for i in range(n) if abs(x[i]) < tol)
        obs.desc.update({'tol': tol, 'exit': exit_, 'x': x, 'clip': clip})
        if clip:
            exp = [0.0 if i in small else v for i, v in enumerate(x)]
            obs.check(list(y) == exp, 'target:suppressed zeroes exactly the entries below tol', x=x, y=list(y), expected=exp)
            frame(obs, x, list(y), small, 'suppressed')
            idem(obs, f, list(y), 'suppressed'); obs.event('assert:type')
        else:
            # clip=False (documented): the suppressed mass is spread evenly over the entries that stay, so the sum is preserved
            kept = [i for i in range(n) if i not in small]
            share = math.fsum(x[i] for i in small) / len(kept) if kept else 0.0
            exp = [0.0 if i in small else x[i] + share for i in range(n)]
            ok = len(y) == n and all(y[i] == 0.0 for i in small) and all(abs(y[i] - exp[i]) <= 1e-12 * max(abs(exp[i]), abs(x[i]), abs(share)) for i in kept)
            obs.check(ok, 'target:suppressed(clip=False) zeroes the entries below tol and spreads their sum evenly over the others', x=x, y=list(y), expected=exp, tol=tol)
            if kept:
                obs.check(abs(math.fsum(y) - math.fsum(x)) <= 1e-12 * max(math.fsum(abs(v) for v in x), 1e-300), 'target:suppressed(clip=False) preserves the sum', x=x, y=list(y), tol=tol)
            if all(abs(exp[i]) >= 2 * tol for i in kept):
                idem(obs, f, list(y), 'suppressed')
            obs.event('assert:type'); obs.event('suppressed_spreading')
        obs.nontrivial = bool(small) and len(small) < n and any(x[i] != 0 for i in range(n) if i not in small)
    reuse(obs, rng, locals(), 'rewrite')
    obs.notes = {'y': tolist(y) if not isinstance(y, (int, float)) else y}


def run_case(cls, idx, rng, obs):
    import warnings
    warnings.simplefilter('ignore')
    np.seterr(all='ignore')
    return {'bounds': run_bounds, 'grid': run_grid, 'unique': run_unique, 'order': run_order,
            'pin': run_pin, 'stats': run_stats, 'rewrite': run_rewrite, 'reconfigure': run_reconfigure}[cls](rng, obs)
