"""C06 - a checkpointed solver resumes exactly as if it had never been interrupted.

Fault enumeration: for a run of N Steps EVERY generation boundary k is taken as the
interruption point, for each save path (SaveSolver file, the periodic SetSaveFrequency
dump, dill.dumps) and each restore path (LoadSolver, dill.loads); the random-generator
state captured next to the checkpoint is restored before resuming.  The uninterrupted
run is the reference history; after every subsequent Step the restored solver must agree
bit-exactly.  A second class SIGKILLs a child process after boundary k and restores the
file it left on disk in a fresh process."""
import os, sys, copy, random, shutil, json, subprocess, hashlib
import numpy as np
from .. import solverkit as K, env

PROPERTY = 'C06'
LEVEL = 'fault_enumeration'
LEVEL_TEXT = ('every generation boundary of each generated run is used as the interruption point for every save/restore path '
              '(exhaustive over boundaries within a run; runs and settings are sampled); real process kills in a second class')
TECHNIQUE = 'fault enumeration over crash points with a reference-history oracle: save at every Step boundary, restore (+RNG state), replay and compare full observable state bit-exactly; independence of copies by state digests'
RULE = ('case = (solver, cost, bounds/constraints/penalty, monitors, save path, restore path, run length N); every boundary k in 1..N-1 is a restore '
        'point; non-trivial = restore point followed by >= 2 further iterations in which the best changed; distinct by (case, k)')
ASSUMPTIONS = ['the random-generator state (random, numpy.random) is saved next to the checkpoint and restored before resuming (the property\'s premise)',
               '_info lines (DUMPED/LOADED markers) are excluded from the comparison by design',
               'the property speaks of completed saves: a crash during a dump is not in scope']
CLASSES = {
    'boundaries': {'quick': 384, 'thorough': 1920},
    'copies': {'quick': 192, 'thorough': 1000},
    'restore_reconfigure': {'quick': 240, 'thorough': 3000},
    'final_dump': {'quick': 240, 'thorough': 1500},
    'sigkill': {'quick': 48, 'thorough': 240},
}
MIN_EVENTS = {'quick': {'restore_points': 300, 'assert:resume': 1500, 'assert:indep': 150}}
CASE_TIMEOUT = 240


def gen_cfg(rng):
    cfg = K.gen_solver_cfg(rng, dims=(1, 4))
    dim = cfg['dim']
    cfg['cost'] = K.gen_cost(rng, dim, ['sphere', 'illquad', 'rosen', 'abs', 'step'])
    cfg['steps'] = rng.randint(5, 11) if cfg['solver'] != 'powell' else rng.randint(4, 7)
    if rng.random() < 0.4:
        b = K.gen_box(rng, dim, cfg['x0'], shape='finite')
        b['tight'] = rng.choice([None, None, True]); b['clip'] = None
        cfg['box'] = b
        if cfg['solver'] in ('de', 'de2'):
            cfg['init_lo'], cfg['init_hi'] = b['lo'], b['hi']
    if rng.random() < 0.4: cfg['cons'] = K.gen_constraint(rng, dim, cfg.get('box'))
    if rng.random() < 0.4: cfg['pen'] = K.gen_penalty(rng, dim)
    cfg['stepmon_kind'] = rng.choice(['plain', 'plain', 'logging', 'verbose', 'verbose_logging'])
    cfg['evalmon_kind'] = rng.choice(['plain', 'plain', 'none', 'logging'])
    # cost multiplier of the monitors (k = -1 is the documented way to log a maximisation): restored monitors must give back the same costs
    cfg['stepmon_k'] = rng.choice([None, None, -1, 2.5]); cfg['evalmon_k'] = rng.choice([None, None, -1, 2.5])
    cfg['save'] = rng.choice(['SaveSolver', 'dill', 'frequency'])
    cfg['restore'] = 'LoadSolver' if cfg['save'] != 'dill' else 'dill'
    cfg['freq'] = rng.choice([1, 2, 3])
    # the solver-specific settings (strategy, CrossProbability, ScalingFactor / radius, adaptive / xtol, imax) are documented as sticky:
    # a restored solver continued WITHOUT repeating them must follow the same trajectory as one that repeats them
    cfg['resume_settings'] = rng.choice(['repeat', 'plain'])
    cfg['load_override'] = rng.random() < 0.25
    if rng.random() < 0.2: cfg['extra_args'] = [rng.choice([0.5, -1.0, 3.0])]      # cost(x, *ExtraArgs): the arguments are part of the saved state
    return cfg


def build(cfg, tmp, probe):
    from mystic.monitors import Monitor, LoggingMonitor
    from mystic.termination import ChangeOverGeneration
    s = K.new_solver(cfg)
    K.init_points(s, cfg)
    s.SetEvaluationLimits(10 ** 6, 10 ** 8)
    s.SetTermination(ChangeOverGeneration(-1.0, 10 ** 6))
    if cfg.get('box'):
        kw = {} if cfg['box'].get('tight') is None else {'tight': cfg['box']['tight']}
        s.SetStrictRanges(list(cfg['box']['lo']), list(cfg['box']['hi']), **kw)
    if cfg.get('cons'): s.SetConstraints(K.make_constraint(cfg['cons']))
    if cfg.get('pen'): s.SetPenalty(K.make_penalty(cfg['pen']))
    from mystic.monitors import VerboseMonitor, VerboseLoggingMonitor
    kk = {} if cfg.get('stepmon_k') is None else {'k': cfg['stepmon_k']}
    if cfg['stepmon_kind'] == 'logging':
        s.SetGenerationMonitor(LoggingMonitor(1, filename=os.path.join(tmp, 'step.log'), new=True, **kk))
    elif cfg['stepmon_kind'] == 'verbose_logging':
        s.SetGenerationMonitor(VerboseLoggingMonitor(1, 50, filename=os.path.join(tmp, 'step.log'), new=True, **kk))
    elif cfg['stepmon_kind'] == 'verbose':
        s.SetGenerationMonitor(VerboseMonitor(50, **kk))
    else:
        s.SetGenerationMonitor(Monitor(**kk))
    ke = {} if cfg.get('evalmon_k') is None else {'k': cfg['evalmon_k']}
    if cfg['evalmon_kind'] == 'plain': s.SetEvaluationMonitor(Monitor(**ke))
    elif cfg['evalmon_kind'] == 'logging': s.SetEvaluationMonitor(LoggingMonitor(1, filename=os.path.join(tmp, 'eval.log'), new=True, **ke))
    if cfg.get('extra_args'): s.SetObjective(probe, ExtraArgs=tuple(cfg['extra_args']))
    else: s.SetObjective(probe)
    return s


def full_state(s):
    sn = K.snap(s)
    sm, em = s._stepmon, s._evalmon
    sn['stepmon'] = [[list(map(float, np.ravel(x))) for x in sm.x], [K.fnum(y) for y in sm.y], list(sm.id)]
    sn['evalmon'] = [len(em), [K.fnum(y) for y in list(em.y)[-50:]]] if hasattr(em, 'y') and len(em) else [0, []]
    return sn


def digest(s):
    return hashlib.sha256(json.dumps(full_state(s), sort_keys=True, default=str).encode()).hexdigest()


def rng_get():
    return (random.getstate(), np.random.get_state())


def rng_set(st):
    random.setstate(st[0]); np.random.set_state(st[1])


def first_diff(a, b):
    for k in a:
        if a[k] != b.get(k):
            return k
    return None


def run_boundaries(rng, obs, tmp):
    import dill
    from mystic.solvers import LoadSolver
    cfg = gen_cfg(rng)
    obs.desc = cfg
    probe = K.probe_for(cfg)
    s = build(cfg, tmp, probe)
    kw = K.step_kwargs(cfg)
    N = cfg['steps']
    saves, rngs, ref = {}, {}, {}
    fn = os.path.join(tmp, 'restart.pkl')
    if cfg['save'] == 'frequency':
        s.SetSaveFrequency(cfg['freq'], fn)
    for k in range(1, N + 1):
        msg = s.Step(**kw)
        ref[k] = full_state(s)
        rngs[k] = rng_get()
        if cfg['save'] == 'SaveSolver':
            p = os.path.join(tmp, 'save.%d.pkl' % k); s.SaveSolver(p); saves[k] = p
        elif cfg['save'] == 'dill':
            saves[k] = dill.dumps(s)
        else:
            # the periodic dump is written by the solver itself; copy it aside when it belongs to this boundary
            if os.path.exists(fn) and s.generations % cfg['freq'] == 0:
                p = os.path.join(tmp, 'freq.%d.pkl' % k); shutil.copy(fn, p); saves[k] = p
        rng_set(rngs[k])         # saving must not consume random numbers for the comparison to be meaningful
        if msg: N = k; break
    final_ref = ref[N]
    points = 0
    for k in sorted(saves):
        if k >= N: continue
        try:
            if cfg['restore'] == 'dill': r = dill.loads(saves[k])
            elif cfg.get('load_override'):
                # LoadSolver(file, **state overrides): an override that repeats what the file already holds changes nothing
                r = LoadSolver(saves[k], _maxiter=10 ** 6, _maxfun=10 ** 8)
                obs.event('restored_with_a_no_op_state_override')
            else: r = LoadSolver(saves[k])
        except Exception as e:
            obs.violation('resume:restore failed', k=k, save=cfg['save'], error=repr(e)[:200], solver=cfg['solver']); continue
        obs.event('restore_points'); points += 1
        rng_set(rngs[k])
        st0 = full_state(r)
        d = first_diff(ref[k], st0)
        obs.check(d is None, 'resume:restored state equals the saved state', k=k, field=d, save=cfg['save'], solver=cfg['solver'],
                  observed=(st0.get(d) if d not in ('stepmon', 'evalmon', 'pop') else str(st0.get(d))[:300]),
                  expected=(ref[k].get(d) if d not in ('stepmon', 'evalmon', 'pop') else str(ref[k].get(d))[:300]),
                  powell_periodic=cfg['solver'] == 'powell' and cfg['save'] == 'frequency')
        n_before = probe.n
        orig_digest = digest(s)
        changed = 0
        ok = True
        for j in range(k + 1, N + 1):
            try:
                r.Step(**(kw if cfg.get('resume_settings', 'repeat') == 'repeat' else {}))
            except Exception as e:
                obs.violation('resume:continuing the restored solver reproduces the uninterrupted run', k=k, step=j, field='exception', save=cfg['save'],
                              restore=cfg['restore'], solver=cfg['solver'], error=repr(e)[:200])
                ok = False
                break
            st = full_state(r)
            d = first_diff(ref[j], st)
            if st['best'] != ref[k]['best']: changed += 1
            if d is not None:
                obs.check(False, 'resume:continuing the restored solver reproduces the uninterrupted run', k=k, step=j, field=d, save=cfg['save'],
                          restore=cfg['restore'], solver=cfg['solver'], observed=str(st.get(d))[:300], expected=str(ref[j].get(d))[:300],
                          resume_settings=cfg.get('resume_settings'), powell_periodic=cfg['solver'] == 'powell' and cfg['save'] == 'frequency')
                ok = False
                break
            obs.event('assert:resume')
        if ok:
            obs.check(full_state(r) == final_ref, 'resume:same final result as the uninterrupted run', k=k, solver=cfg['solver'])
            obs.check(r.evaluations - ref[k]['evals'] == probe.n - n_before, 'indep:the restored solver counts exactly its own evaluations', k=k,
                      counted=r.evaluations - ref[k]['evals'], real=probe.n - n_before, solver=cfg['solver'])
        obs.check(digest(s) == orig_digest, 'indep:advancing the restored solver never changes the original', k=k, solver=cfg['solver'], save=cfg['save'])
        if changed >= 2 and N - k >= 2: obs.nontrivial = True
    obs.notes = {'steps': N, 'restore_points': points, 'save': cfg['save']}


def run_final_dump(rng, obs, tmp):
    """the restart file a solver writes by itself when it STOPS (it has a registered restart file): the restored solver equals the stopped
    one and, after the limits are raised on both, continues exactly like it from the same random state"""
    from mystic.solvers import LoadSolver
    from mystic.termination import ChangeOverGeneration
    cfg = gen_cfg(rng)
    cfg['save'] = 'frequency'; cfg['restore'] = 'LoadSolver'
    cfg['freq'] = rng.choice([1, 2, 3, 5, 50])          # also frequencies that never fire before the stop: the final dump is forced
    G = rng.randint(2, 7)
    obs.desc = dict(cfg, stop_after=G)
    probe = K.probe_for(cfg)
    s = build(cfg, tmp, probe)
    kw = K.step_kwargs(cfg)
    fn = os.path.join(tmp, 'final.pkl')
    s.SetSaveFrequency(cfg['freq'], fn)
    s.SetEvaluationLimits(G, 10 ** 8)
    msg = None
    for _ in range(G + 3):
        msg = s.Step(**kw)
        if msg: break
    if not msg or not os.path.exists(fn):
        obs.skip('the run did not stop / no restart file'); return
    st = rng_get()
    try:
        r = LoadSolver(fn)
    except Exception as e:
        obs.violation('resume:restore failed', k='final', save='final dump', error=repr(e)[:200], solver=cfg['solver']); return
    rng_set(st)
    a, b = full_state(s), full_state(r)
    d = first_diff(a, b)
    obs.check(d is None, 'resume:restored state equals the saved state', k='final', field=d, save='final dump', solver=cfg['solver'],
              observed=str(b.get(d))[:300], expected=str(a.get(d))[:300])
    obs.event('restore_points')
    m = rng.randint(2, 5)
    traj = []
    for x in (s, r):
        rng_set(st)
        x.SetEvaluationLimits(G + m + 5, 10 ** 8)
        t = []
        for _ in range(m):
            x.Step(**kw); t.append(full_state(x))
        traj.append(t)
    first = next((j for j, (u, v) in enumerate(zip(*traj)) if u != v), None)
    obs.check(first is None, 'resume:continuing the restored solver reproduces the uninterrupted run', k='final', step=first, save='final dump', restore='LoadSolver',
              solver=cfg['solver'], field=None if first is None else first_diff(traj[0][first], traj[1][first]), box=bool(cfg.get('box')))
    obs.event('assert:resume', m)
    obs.nontrivial = traj[0][-1]['best'] != a['best'] or traj[0][-1]['gens'] > a['gens']
    obs.notes = {'stopped_at': a['gens'], 'continued': m}


def run_restore_reconfigure(rng, obs, tmp):
    """a restored solver is a solver like any other: reconfigured right after the restore (another penalty, constraints, ranges, a fresh
    evaluation monitor) it continues exactly like the uninterrupted solver that was reconfigured at the same point"""
    import dill
    from mystic.solvers import LoadSolver
    from mystic.monitors import Monitor
    cfg = gen_cfg(rng)
    cfg['stepmon_kind'] = 'plain'; cfg['evalmon_kind'] = rng.choice(['plain', 'none'])
    cfg['save'] = rng.choice(['SaveSolver', 'dill']); cfg['restore'] = 'LoadSolver' if cfg['save'] == 'SaveSolver' else 'dill'
    dim = cfg['dim']
    what = rng.choice(['penalty', 'penalty', 'constraints', 'ranges', 'evalmon'])
    pen2 = K.gen_penalty(rng, dim)
    box2 = K.gen_box(rng, dim, cfg['x0'], shape='finite')
    cons2 = K.gen_constraint(rng, dim, cfg.get('box'))
    k = rng.randint(1, cfg['steps'] - 2); m = rng.randint(2, 5)
    obs.desc = dict(cfg, reconfigure=what, at=k, more=m)
    kw = K.step_kwargs(cfg)
    def reconf(s):
        if what == 'penalty': s.SetPenalty(K.make_penalty(pen2))
        elif what == 'constraints': s.SetConstraints(K.make_constraint(cons2))
        elif what == 'ranges': s.SetStrictRanges(list(box2['lo']), list(box2['hi']))
        else: s.SetEvaluationMonitor(Monitor())
    def drop(st):      # (the evaluation monitor is replaced in the 'evalmon' variant: compare everything else)
        return {q: v for q, v in st.items() if not (what == 'evalmon' and q in ('evalmon',))}
    random.seed(obs.seed); np.random.seed(obs.seed % (2 ** 32))
    pa = K.probe_for(cfg)
    a = build(cfg, tmp, pa)
    for _ in range(k): a.Step(**kw)
    st = rng_get()
    blob = None
    if cfg['save'] == 'SaveSolver':
        fn = os.path.join(tmp, 'mid.pkl'); a.SaveSolver(fn)
    else:
        blob = dill.dumps(a)
    rng_set(st)
    reconf(a)
    ref = []
    for _ in range(m):
        a.Step(**kw); ref.append(drop(full_state(a)))
    rng_set(st)
    b = LoadSolver(fn) if blob is None else dill.loads(blob)
    rng_set(st)
    reconf(b)
    got = []
    for _ in range(m):
        b.Step(**kw); got.append(drop(full_state(b)))
    first = next((j for j, (u, v) in enumerate(zip(ref, got)) if u != v), None)
    obs.check(first is None, 'resume:continuing the restored solver reproduces the uninterrupted run', k=k, step=first, save=cfg['save'], restore=cfg['restore'],
              solver=cfg['solver'], reconfigured=what, field=None if first is None else first_diff(ref[first], got[first]),
              observed=None if first is None else str(got[first].get(first_diff(ref[first], got[first])))[:200],
              expected=None if first is None else str(ref[first].get(first_diff(ref[first], got[first])))[:200])
    obs.event('restore_points'); obs.event('assert:resume', m); obs.event('reconfigured_after_restore')
    obs.nontrivial = ref[-1]['best'] != ref[0]['best'] or what != 'evalmon'
    obs.notes = {'k': k, 'more': m, 'what': what}


def run_copies(rng, obs, tmp):
    """deep copies (and dill round trips) of a live solver are independent and keep counting their own evaluations"""
    import dill
    cfg = gen_cfg(rng)
    cfg['stepmon_kind'] = 'plain'
    obs.desc = cfg
    probe = K.probe_for(cfg)
    s = build(cfg, tmp, probe)
    kw = K.step_kwargs(cfg)
    k = rng.randint(1, cfg['steps'] - 2)
    how = rng.choice(['deepcopy', 'dill.copy'])
    obs.desc['copy'] = how; obs.desc['k'] = k
    for _ in range(k): s.Step(**kw)
    st = rng_get()
    c = copy.deepcopy(s) if how == 'deepcopy' else dill.copy(s)
    obs.check(full_state(c) == full_state(s), 'indep:a copy starts in the state of the original', how=how, solver=cfg['solver'],
              field=first_diff(full_state(s), full_state(c)))
    d_orig = digest(s)
    n0 = probe.n; e0 = c.evaluations; m0 = len(c._evalmon) if cfg['evalmon_kind'] == 'plain' else None
    steps = rng.randint(2, 4)
    for _ in range(steps): c.Step(**kw)
    made = probe.n - n0
    obs.check(digest(s) == d_orig, 'indep:advancing a copy never changes the original', how=how, solver=cfg['solver'])
    obs.check(c.evaluations - e0 == made, 'indep:the copy keeps counting its own evaluations', how=how, solver=cfg['solver'], counted=c.evaluations - e0, real=made,
              live_at_copy=True)
    if m0 is not None:
        obs.check(len(c._evalmon) - m0 == made, 'indep:the copy\'s evaluation monitor keeps recording', how=how, solver=cfg['solver'], recorded=len(c._evalmon) - m0, real=made,
                  live_at_copy=True)
    # and the other way round, with the RNG state restored: the original continues as the copy did
    d_copy = digest(c)
    rng_set(st)
    n1 = probe.n; e1 = s.evaluations
    for _ in range(steps): s.Step(**kw)
    obs.check(digest(c) == d_copy, 'indep:advancing the original never changes the copy', how=how, solver=cfg['solver'])
    obs.check(s.evaluations - e1 == probe.n - n1, 'indep:the original keeps counting its own evaluations', solver=cfg['solver'])
    a, b = full_state(s), full_state(c)
    for f in ('evals', 'evalmon'):        # counters of the copy are judged above
        a.pop(f); b.pop(f)
    obs.check(a == b, 'resume:copy and original follow the same trajectory from the same random state', how=how, solver=cfg['solver'], field=first_diff(a, b))
    obs.nontrivial = made > 0
    obs.notes = {'k': k, 'steps_after': steps, 'how': how, 'calls_by_copy': made}


CHILD = r'''
import sys, os, json, random
sys.path.insert(0, %(verif)r)
from mv import env; env.setup_paths()
import numpy as np
np.seterr(all='ignore')
from mv import solverkit as K
from mv.props import c06
cfg = json.loads(%(cfg)r)
random.seed(cfg['seed']); np.random.seed(cfg['seed'] %% (2**32))
probe = K.probe_for(cfg)
s = c06.build(cfg, %(tmp)r, probe)
kw = K.step_kwargs(cfg)
import pickle
fn = os.path.join(%(tmp)r, 'restart.pkl')
s.SetSaveFrequency(1, fn)
mode = %(mode)r
if mode == 'resume':
    from mystic.solvers import LoadSolver
    s = LoadSolver(fn)
    st = pickle.load(open(os.path.join(%(tmp)r, 'rng.%%d.pkl' %% s.generations if False else %(tmp)r + '/rng.pkl'), 'rb'))
    c06.rng_set(st)
    start = %(k)d
else:
    start = 0
out = {}
for k in range(start + 1, cfg['steps'] + 1):
    s.Step(**kw)
    out[k] = c06.full_state(s)
    if mode != 'resume':
        pickle.dump(c06.rng_get(), open(%(tmp)r + '/rng.%%d.pkl' %% k, 'wb'))
    json.dump(out, open(%(tmp)r + '/%%s.json' %% mode, 'w'))
    sys.stdout.write('BOUNDARY %%d\n' %% k); sys.stdout.flush()
    if mode == 'victim' and k == %(k)d:
        import time; time.sleep(60)      # wait to be killed
'''


def run_sigkill(rng, obs, tmp):
    import signal
    cfg = gen_cfg(rng)
    cfg['stepmon_kind'] = 'plain'; cfg['save'] = 'frequency'; cfg['freq'] = 1
    cfg['seed'] = obs.seed
    k = rng.randint(1, cfg['steps'] - 2)
    obs.desc = dict(cfg, kill_after=k)
    def script(mode):
        return CHILD % {'verif': env.VERIF, 'cfg': json.dumps(cfg), 'tmp': tmp, 'mode': mode, 'k': k}
    envp = dict(os.environ, MYSTIC_VERIF_REPO=env.REPO, PYTHONHASHSEED='0')
    ref = subprocess.run([sys.executable, '-c', script('reference')], env=envp, capture_output=True, text=True, timeout=120)
    if ref.returncode != 0:
        obs.skip('reference child failed: %s' % ref.stderr[-300:]); return
    refstates = json.load(open(os.path.join(tmp, 'reference.json')))
    os.remove(os.path.join(tmp, 'restart.pkl'))
    p = subprocess.Popen([sys.executable, '-c', script('victim')], env=envp, stdout=subprocess.PIPE, stderr=subprocess.DEVNULL, text=True)
    seen = 0
    while True:
        line = p.stdout.readline()
        if not line: break
        if line.startswith('BOUNDARY'):
            seen = int(line.split()[1])
            if seen == k: break
    p.send_signal(signal.SIGKILL); p.wait()
    obs.event('process_kills')
    shutil.copy(os.path.join(tmp, 'rng.%d.pkl' % k), os.path.join(tmp, 'rng.pkl'))
    res = subprocess.run([sys.executable, '-c', script('resume')], env=envp, capture_output=True, text=True, timeout=120)
    obs.check(res.returncode == 0, 'resume:a fresh process can restore the file left by a killed run', k=k, solver=cfg['solver'], stderr=res.stderr[-400:])
    if res.returncode != 0: return
    got = json.load(open(os.path.join(tmp, 'resume.json')))
    obs.event('restore_points')
    for j in sorted(got, key=int):
        a, b = refstates[j], got[j]
        d = first_diff(a, b)
        obs.check(d is None, 'resume:continuing the restored solver reproduces the uninterrupted run', k=k, step=int(j), field=d, solver=cfg['solver'],
                  save='frequency', restore='LoadSolver (fresh process after SIGKILL)', observed=str(b.get(d))[:200], expected=str(a.get(d))[:200])
        obs.event('assert:resume')
        if d is not None: break
    obs.nontrivial = len(got) >= 2
    obs.notes = {'killed_after_boundary': k, 'resumed_steps': len(got)}


def run_case(cls, idx, rng, obs):
    import warnings
    warnings.simplefilter('ignore')
    np.seterr(all='ignore')
    tmp = os.path.join(env.OUT, 'c06', '%s-%d-%d' % (cls, idx, os.getpid()))
    os.makedirs(tmp, exist_ok=True)
    try:
        return {'boundaries': run_boundaries, 'copies': run_copies, 'sigkill': run_sigkill, 'final_dump': run_final_dump, 'restore_reconfigure': run_restore_reconfigure}[cls](rng, obs, tmp)
    finally:
        shutil.rmtree(tmp, ignore_errors=True)
