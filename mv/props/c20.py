"""C20 - monitors and log files give back exactly what was recorded.

(a) random operation sequences on Monitor objects mirrored on a list-of-records model
    (mv.refs.monitor_model); after every op x / y / id / len agree and argument
    monitors are unchanged;
(b) what LoggingMonitor writes is read back with logfile_reader / read_history, and
    write_raw/support/converge_file output with the matching readers."""
import math, os, shutil
import numpy as np
from ..refs.monitor_model import Model, same_value, plain
from .. import env

PROPERTY = 'C20'
LEVEL = 'exploration'
TECHNIQUE = 'history + executable model: monitor op sequences vs a list-of-records model; write/read round trips of log and parameter files'
RULE = ('case = op sequence over {call(x,y,id), slice, index, +, extend, prepend, len, min} on 2-3 monitors with scaling '
        'k in {None,1,-1,2,0.5,2.5}, or a generated trajectory written to a log / raw / support / converge file and '
        'read back; non-trivial = the sequence combined monitors of different k (after records were added), or the file '
        'held a special value (inf/nan/-0.0/1e+-300) together with a vector-valued cost or an id; distinct by canonical JSON')
ASSUMPTIONS = ['k is transparent up to one multiply/divide rounding (rel 4e-16 per conversion)',
               'within one monitor all costs have one Python type family for the munge writers '
               '(mixing numpy and python scalars in one trajectory is outside the judged class)',
               'file names avoid the ".p?" suffix the readers strip']
CLASSES = {
    'ops': {'quick': 24000, 'thorough': 180000},
    'logfile': {'quick': 4200, 'thorough': 36000},
    'parfiles': {'quick': 3600, 'thorough': 30000},
}
MIN_EVENTS = {'quick': {'assert:ops': 20000, 'assert:logfile': 1500, 'assert:parfiles': 1000}}
KS = [None, 1, -1, 2, 0.5, 2.5]
SPECIAL = [float('inf'), float('-inf'), float('nan'), -0.0, 1e300, -1e-300, 0.1, -123456.789]


def gen_x(rng, dim, style):
    vals = [rng.choice(SPECIAL) if rng.random() < 0.15 else round(rng.uniform(-10, 10), rng.randint(0, 12)) for _ in range(dim)]
    vals = [v if (v == v) else 1.5 for v in vals]          # nan in x makes equality meaningless
    if style == 'list': return list(vals)
    if style == 'tuple': return tuple(vals)
    if style == 'array': return np.array(vals, dtype=float)
    if style == 'ints': return [int(v) if math.isfinite(v) else 3 for v in vals]
    return vals


def gen_y(rng, style, special=0.15):
    def one():
        return rng.choice(SPECIAL) if rng.random() < special else round(rng.uniform(-100, 100), rng.randint(0, 12))
    if style == 'float': return one()
    if style == 'int': return rng.randint(-5, 50)
    if style == 'npfloat': return np.float64(one())
    if style == 'np0d': return np.array(one())            # a 0-d array: what Powell hands its monitors as the cost
    if style == 'list': return [one() for _ in range(3)]
    if style == 'tuple': return tuple(one() for _ in range(2))
    if style == 'array': return np.array([one() for _ in range(3)])
    raise KeyError(style)


def compare(obs, mon, model, where, ops):
    got_x, got_y, got_id = mon.x, mon.y, mon.id
    ok_len = len(mon) == len(model.recs)
    obs.check(ok_len, 'ops:len equals number of records', where=where, ops=ops[-5:], observed=len(mon), expected=len(model.recs))
    if not ok_len:
        return
    ex = [r[0] for r in model.recs]
    obs.check(same_value(plain(got_x), ex, 0), 'ops:i-th parameters returned unchanged', where=where, ops=ops[-5:],
              observed=plain(got_x)[-3:], expected=ex[-3:])
    ey = [r[1] for r in model.recs]
    obs.check(same_value(plain(got_y), ey, model.ulps * 3e-16), 'ops:i-th cost returned unchanged (k transparent)',
              where=where, ops=ops[-5:], k=mon.k, observed=plain(got_y)[-3:], expected=ey[-3:])
    eid = [r[2] for r in model.recs]
    obs.check(list(got_id) == eid, 'ops:i-th id returned unchanged', where=where, ops=ops[-5:], observed=list(got_id)[-3:], expected=eid[-3:])


def snapshot(mon):
    return (plain(mon.x), plain(mon.y), list(mon.id), mon.k)


def run_ops(rng, obs):
    from mystic.monitors import Monitor, Null
    nm = rng.randint(2, 3)
    ks = [rng.choice(KS) for _ in range(nm)]
    mons = [Monitor(k=k) if k is not None or rng.random() < 0.5 else Monitor() for k in ks]
    models = [Model(k) for k in ks]
    dim = rng.randint(1, 4)
    ystyle = rng.choice(['float', 'float', 'int', 'npfloat', 'np0d', 'list', 'array', 'mixed'])
    ops = []
    combined_diff_k = False
    for _ in range(rng.randint(5, 22)):
        a = rng.randrange(nm)
        r = rng.random()
        if r < 0.5:
            x = gen_x(rng, dim, rng.choice(['list', 'tuple', 'array', 'ints']))
            ys = ystyle if ystyle != 'mixed' else rng.choice(['float', 'int', 'npfloat', 'np0d'])
            y = gen_y(rng, ys)
            i = rng.choice([None, None, rng.randint(0, 9)])
            ops.append(['call', a, plain(x), plain(y), i])
            xa = x.copy() if hasattr(x, 'copy') else list(x)
            mons[a](x, y, i) if i is not None or rng.random() < 0.5 else mons[a](x, y)
            models[a].call(plain(x), plain(y), i)
            obs.check(same_value(plain(x), plain(xa), 0), 'ops:recording does not alter the recorded argument', op=ops[-1])
        elif r < 0.62:
            b = rng.randrange(nm)
            if b == a: continue
            before = snapshot(mons[b])
            kind = rng.choice(['extend', 'prepend'])
            ops.append([kind, a, b])
            getattr(mons[a], kind)(mons[b])
            getattr(models[a], kind)(models[b])
            obs.check(same_value(snapshot(mons[b]), before, 0), 'ops:%s never alters the monitor passed to it' % kind, ops=ops[-5:])
            if ks[a] != ks[b] and len(models[b].recs): combined_diff_k = True
        elif r < 0.72:
            b = rng.randrange(nm)
            before_a, before_b = snapshot(mons[a]), snapshot(mons[b])
            ops.append(['add', a, b])
            m = mons[a] + mons[b]
            mm = models[a].add(models[b])
            compare(obs, m, mm, 'a+b', ops)
            obs.check(same_value(snapshot(mons[a]), before_a, 0) and same_value(snapshot(mons[b]), before_b, 0),
                      'ops:+ never alters its operands', ops=ops[-5:])
            if ks[a] != ks[b] and len(models[b].recs) and len(models[a].recs): combined_diff_k = True
            # the sum must be independent storage
            if len(mm.recs):
                m([0.0] * dim, 1.0)
                obs.check(len(mons[a]) == len(models[a].recs) and len(mons[b]) == len(models[b].recs),
                          'ops:result of + does not share storage with its operands', ops=ops[-5:])
        elif r < 0.84:
            n = len(models[a].recs)
            lo = rng.randint(-n - 1, n + 1); hi = rng.choice([None, rng.randint(-n - 1, n + 1)]); st = rng.choice([None, None, 2, -1])
            sl = slice(lo, hi, st)
            before = snapshot(mons[a])
            ops.append(['slice', a, lo, hi, st])
            m = mons[a][sl]
            compare(obs, m, models[a].slice(sl), 'slice', ops)
            obs.check(same_value(snapshot(mons[a]), before, 0), 'ops:slicing never alters the monitor', ops=ops[-5:])
        elif r < 0.92:
            n = len(models[a].recs)
            if not n: continue
            i = rng.randint(-n, n - 1)
            ops.append(['index', a, i])
            gx, gy = mons[a][i]
            ex, ey, _ = models[a].recs[i]
            obs.check(same_value(plain(gx), ex, 0) and same_value(plain(gy), ey, models[a].ulps * 3e-16),
                      'ops:monitor[i] is the i-th (params, cost)', ops=ops[-5:], observed=[plain(gx), plain(gy)], expected=[ex, ey])
        elif r < 0.96:
            ops.append(['extend-null', a])
            mons[a].extend(Null()); mons[a].prepend(Null())
        else:
            recs = models[a].recs
            if not recs or any(isinstance(r_[1], list) or r_[1] != r_[1] for r_ in recs): continue
            ops.append(['min', a])
            gx, gy = mons[a].min()
            ybest = min(r_[1] for r_ in recs)
            obs.check(same_value(plain(gy), ybest, models[a].ulps * 3e-16), 'ops:min() is the record of least cost',
                      ops=ops[-5:], observed=plain(gy), expected=ybest)
        compare(obs, mons[a], models[a], 'after-op', ops)
    from mystic import munge
    class View(object):          # (x, y, id) triples as the munge helpers hand them back, in the shape compare() reads
        def __init__(self, x, y, ids, k): self.x, self.y, self.id, self.k = x, y, ids, k
        def __len__(self): return len(self.x)
    for j in range(nm):
        compare(obs, mons[j], models[j], 'final', ops)
        # the trajectory helpers of mystic.munge give back the same records: read_monitor / read_trajectories read them out,
        # write_monitor builds a monitor that holds them (cost scaling by k transparent)
        rx, ry, rid = munge.read_monitor(mons[j], id=True)
        compare(obs, View(rx, ry, rid, ks[j]), models[j], 'read_monitor', ops)
        tx, ty = munge.read_trajectories(mons[j])
        compare(obs, View(tx, ty, rid, ks[j]), models[j], 'read_trajectories', ops)
        if not any(isinstance(r_[1], list) for r_ in models[j].recs) or all(isinstance(r_[1], list) for r_ in models[j].recs):
            m2 = munge.write_monitor([list(v) for v in plain(rx)], plain(ry), id=list(rid), k=ks[j])
            compare(obs, m2, models[j], 'write_monitor', ops)
        compare(obs, mons[j], models[j], 'after the munge helpers', ops)
    obs.desc = {'ks': ks, 'dim': dim, 'ystyle': ystyle, 'ops': ops}
    obs.nontrivial = combined_diff_k
    obs.notes = {'final_lengths': [len(m) for m in models_len(models)]}


def models_len(models):
    return [m.recs for m in models]


def casedir(obs):
    d = os.path.join(env.OUT, 'c20', '%s-%d-%d' % (obs.cls, obs.idx, os.getpid()))
    os.makedirs(d, exist_ok=True)
    return d


def gen_traj(rng, n, dim, ystyle, xstyle):
    return [(gen_x(rng, dim, xstyle), gen_y(rng, ystyle, 0.3)) for _ in range(n)]


def run_logfile(rng, obs):
    from mystic.monitors import LoggingMonitor, VerboseLoggingMonitor
    from mystic.munge import logfile_reader, read_history
    d = casedir(obs)
    try:
        dim, n = rng.randint(1, 4), rng.randint(1, 12)
        ystyle = rng.choice(['float', 'float', 'npfloat', 'list', 'array', 'int'])
        xstyle = rng.choice(['list', 'array', 'tuple', 'ints'])
        k = rng.choice([None, None, 1, -1, 2])
        use_id = rng.choice([None, None, rng.randint(0, 5)])
        interval = rng.choice([1, 1, 1, 2, 3])
        fn = os.path.join(d, 'log.txt')
        cls = LoggingMonitor if rng.random() < 0.8 else VerboseLoggingMonitor
        kw = {'k': k} if k is not None else {}
        mon = cls(interval, filename=fn, new=True, **kw) if cls is LoggingMonitor else cls(interval, 10**9, filename=fn, new=True, **kw)
        traj = gen_traj(rng, n, dim, ystyle, xstyle)
        if rng.random() < 0.3:
            mon.info('restart marker')            # comment lines must be skipped by the reader
        for x, y in traj:
            mon(x, y, use_id) if use_id is not None else mon(x, y)
        special = any((not isinstance(v, (list, tuple)) and isinstance(v, float) and (not math.isfinite(v) or v == 0 and math.copysign(1, v) < 0 or abs(v) in (1e300, 1e-300, 5e-324)))
                      for x, y in traj for v in (plain(x) + (plain(y) if isinstance(plain(y), list) else [plain(y)])))
        steps, params, cost = logfile_reader(fn, iter=True)
        kept = [i for i in range(n) if i % interval == 0]
        obs.check(len(cost) == len(kept), 'logfile:one line per logged iteration', observed=len(cost), expected=len(kept), interval=interval)
        if len(cost) == len(kept):
            exp_steps = [(i,) if use_id is None else (i, use_id) for i in kept]
            obs.check(list(steps) == exp_steps, 'logfile:iteration/id column read back', observed=steps[:4], expected=exp_steps[:4])
            ex = [plain(traj[i][0]) for i in kept]
            ey = [plain(traj[i][1]) for i in kept]
            obs.check(same_value(plain(params), ex, 0), 'logfile:parameters read back exactly', observed=plain(params)[:3], expected=ex[:3])
            obs.check(same_value(plain(cost), ey, 4e-16 if k not in (None, 1) else 0), 'logfile:costs read back exactly',
                      k=k, observed=plain(cost)[:3], expected=ey[:3])
            if interval == 1:
                hs, hp, hc = read_history(fn, iter=True)
                # read_history returns the 'support' layout: hp[j][t] == (x_t[j],)
                dec = [[hp[j][t][0] for j in range(dim)] for t in range(len(hc))] if len(hp) == dim else None
                obs.check(dec is not None and same_value(plain(dec), ex, 0) and same_value(plain(hc), ey, 4e-16 if k not in (None, 1) else 0),
                          'logfile:read_history gives the same iterations, parameters and costs',
                          observed=plain(hp)[:2], expected=ex[:3])
        obs.desc = {'dim': dim, 'n': n, 'ystyle': ystyle, 'xstyle': xstyle, 'k': k, 'id': use_id, 'interval': interval,
                    'traj': plain(traj)[:6], 'monitor': cls.__name__}
        obs.nontrivial = special and (ystyle in ('list', 'array') or use_id is not None)
        obs.notes = {'lines': len(kept), 'special': special}
    finally:
        shutil.rmtree(d, ignore_errors=True)


def run_parfiles(rng, obs):
    from mystic.monitors import Monitor
    from mystic import munge
    d = casedir(obs)
    try:
        dim, n = rng.randint(1, 4), rng.randint(1, 10)
        ystyle = rng.choice(['float', 'float', 'int', 'list', 'tuple'])
        xstyle = rng.choice(['list', 'tuple', 'ints'])
        numpy_input = rng.random() < 0.12
        if numpy_input:
            if rng.random() < 0.5: xstyle = 'array'
            else: ystyle = 'npfloat'
        k = rng.choice([None, None, 1, -1, 2])
        use_id = rng.choice([None, None, rng.randint(0, 5)])
        mon = Monitor(k=k) if k is not None else Monitor()
        traj = gen_traj(rng, n, dim, ystyle, xstyle)
        for x, y in traj:
            mon(x, y, use_id) if use_id is not None else mon(x, y)
        ex = [plain(x) for x, _ in traj]
        ey = [plain(y) for _, y in traj]
        tol = 4e-16 if k not in (None, 1) else 0
        eid = [(i,) if use_id is None else (i, use_id) for i in range(n)]
        tag = '%x' % (obs.seed % (1 << 48))
        fmt = rng.choice(['raw', 'support', 'converge'])
        fn = os.path.join(d, 'p%s_%s.py' % (fmt[0], tag))
        before = snapshot(mon)
        if numpy_input:
            # numpy scalars kept inside the monitor's lists are written with their numpy-2 repr
            try:
                getattr(munge, 'write_%s_file' % fmt)(mon, fn)
                import importlib; importlib.invalidate_caches()
                getattr(munge, 'read_%s_file' % fmt)(fn, iter=True)
                obs.event('numpy_input_roundtrip_ok')
            except Exception as e:
                obs.violation('parfiles:file written from numpy-valued records cannot be read back', fmt=fmt,
                              numpy_input=True, error=type(e).__name__, message=str(e)[:120], xstyle=xstyle, ystyle=ystyle)
            obs.desc = {'fmt': fmt, 'numpy_input': True, 'xstyle': xstyle, 'ystyle': ystyle, 'dim': dim, 'n': n}
            return
        import importlib
        def fresh():
            importlib.invalidate_caches()   # the file is created and imported within one process
        if fmt == 'raw':
            munge.write_raw_file(mon, fn, header='case %s' % tag); fresh()
            ids, P, C = munge.read_raw_file(fn, iter=True)
            dec = P
        elif fmt == 'support':
            munge.write_support_file(mon, fn); fresh()
            ids, (P, C) = munge.read_support_file(fn, iter=True)
            # support reader: P[0][j][t] == x_t[j]
            dec = [[P[0][j][t] for j in range(dim)] for t in range(n)] if len(P) == 1 and len(P[0]) == dim else None
        else:
            munge.write_converge_file(mon, fn); fresh()
            ids, (P, C) = munge.read_converge_file(fn, iter=True)
            # converge reader: P[t][0][j] == x_t[j]
            dec = [[P[t][0][j] for j in range(dim)] for t in range(n)] if len(P) == n else None
        obs.check(same_value(snapshot(mon), before, 0), 'parfiles:writing never alters the monitor', fmt=fmt)
        obs.check(dec is not None and same_value(plain(dec), ex, 0), 'parfiles:parameters read back to the same trajectory',
                  fmt=fmt, observed=plain(P)[:2], expected=ex[:3])
        obs.check(same_value(plain(C), ey, tol), 'parfiles:costs read back to the same trajectory', fmt=fmt, k=k,
                  observed=plain(C)[:3], expected=ey[:3])
        obs.check(list(ids) == eid, 'parfiles:iteration/id read back', fmt=fmt, observed=list(ids)[:3], expected=eid[:3])
        special = any(isinstance(v, float) and (not math.isfinite(v) or (v == 0 and math.copysign(1, v) < 0) or abs(v) in (1e300, 1e-300, 5e-324))
                      for x, y in zip(ex, ey) for v in (x + (y if isinstance(y, list) else [y])))
        obs.desc = {'fmt': fmt, 'dim': dim, 'n': n, 'ystyle': ystyle, 'xstyle': xstyle, 'k': k, 'id': use_id, 'traj': plain(traj)[:5]}
        obs.nontrivial = special and (ystyle in ('list', 'tuple') or use_id is not None)
        obs.notes = {'special': special}
    finally:
        shutil.rmtree(d, ignore_errors=True)


def run_case(cls, idx, rng, obs):
    import warnings
    warnings.simplefilter('ignore')
    np.seterr(all='ignore')
    if cls == 'ops': return run_ops(rng, obs)
    if cls == 'logfile': return run_logfile(rng, obs)
    return run_parfiles(rng, obs)
