"""observation record of one monitored case + JSON helpers"""
import json, math, hashlib


def jsonable(o, depth=0):
    """convert numpy / special floats / arbitrary objects into strict JSON"""
    if depth > 12:
        return repr(o)[:200]
    if o is None or isinstance(o, (bool, str)):
        return o
    if isinstance(o, int):
        return o if abs(o) < 2**63 else repr(o)
    if isinstance(o, float):
        if math.isnan(o): return 'nan'
        if math.isinf(o): return 'inf' if o > 0 else '-inf'
        return o
    try:
        import numpy as np
        if isinstance(o, np.generic):
            return jsonable(o.item(), depth + 1)
        if isinstance(o, np.ndarray):
            return jsonable(o.tolist(), depth + 1)
    except Exception:
        pass
    if isinstance(o, dict):
        return {str(k): jsonable(v, depth + 1) for k, v in o.items()}
    if isinstance(o, (list, tuple, set, frozenset)):
        return [jsonable(v, depth + 1) for v in o]
    return repr(o)[:300]


def digest(o):
    return hashlib.sha256(json.dumps(jsonable(o), sort_keys=True).encode()).hexdigest()[:16]


class Obs(object):
    """what one case observed.  Monitors never raise into the code under test:
    they append violation records here and let the run continue."""
    MAXV = 12  # cap per case (one defect must not flood the report)

    def __init__(self, cls, idx, seed):
        self.cls, self.idx, self.seed = cls, idx, seed
        self.desc = {}
        self.nontrivial = False
        self.violations = []
        self.nviol = 0
        self.events = {}
        self.skipped = None
        self.notes = {}

    def event(self, name, n=1):
        self.events[name] = self.events.get(name, 0) + n

    def violation(self, clause, **kw):
        self.nviol += 1
        if len(self.violations) < self.MAXV:
            rec = {'clause': clause}
            rec.update(kw)
            self.violations.append(jsonable(rec))

    def check(self, ok, clause, **kw):
        """count an evaluated assertion; record a violation when it is false"""
        self.event('assert:' + clause.split(':')[0])
        if not ok:
            self.violation(clause, **kw)
        return bool(ok)

    def skip(self, why):
        self.skipped = str(why)[:300]

    def result(self):
        d = jsonable(self.desc)
        return {'class': self.cls, 'idx': self.idx, 'seed': self.seed, 'desc': d,
                'key': digest([self.cls, d]), 'nontrivial': bool(self.nontrivial),
                'violations': self.violations, 'nviol': self.nviol,
                'events': self.events, 'skipped': self.skipped,
                'notes': jsonable(self.notes)}
