"""sharding, watchdogs, aggregation, verdicts and evidence for ./check <ID>

verdicts are three-valued:  held (exit 0) / violated (exit 1, VIOLATION line) /
inconclusive (exit 2, INCONCLUSIVE line; a deciding monitor saw nothing, a watchdog
fired, or a worker died)."""
import os, sys, json, time, random, signal, subprocess, importlib, traceback, argparse

from . import env
env.setup_paths()
from .core import Obs, jsonable, digest

NWORKERS = 16
MAXV_WORKER = 60


class CaseTimeout(Exception):
    pass


WALL_FACTOR = 8


def _alarm(signum, frame):
    raise CaseTimeout()


def load(prop):
    return importlib.import_module('mv.props.%s' % prop.lower())


def all_cases(mod, tier):
    """deterministic enumeration (class, idx); quick is a prefix of thorough per class"""
    out = []
    for cls, spec in mod.CLASSES.items():
        n = spec.get(tier, spec.get('quick', 0))
        out.extend((cls, i) for i in range(n))
    return out


def run_one(mod, cls, idx, base_seed):
    import numpy
    s = env.case_seed(mod.PROPERTY, cls, idx, base_seed)
    rng = random.Random(s)
    random.seed(s)
    numpy.random.seed(s % (2**32))
    obs = Obs(cls, idx, s)
    hostile = bool(mod.CLASSES[cls].get('hostile'))
    # per-case watchdog in the process's own CPU time, so that a loaded machine cannot turn a fast case into an INCONCLUSIVE run;
    # a generous wall-clock alarm stays behind it for cases that block without burning CPU (pools, pipes)
    timeout = int(getattr(mod, 'CASE_TIMEOUT', 120))
    old = signal.signal(signal.SIGALRM, _alarm)
    oldp = signal.signal(signal.SIGPROF, _alarm)
    signal.setitimer(signal.ITIMER_PROF, timeout)
    signal.alarm(WALL_FACTOR * timeout)
    status = 'ok'
    t0 = time.process_time()
    try:
        mod.run_case(cls, idx, rng, obs)
    except CaseTimeout:
        status = 'timeout'
    except Exception as e:
        tb = traceback.format_exc().splitlines()[-14:]
        if hostile:
            obs.skip('exception %s' % type(e).__name__)
        else:
            obs.violation('exception:%s' % type(e).__name__, message=str(e)[:300], traceback=tb)
    finally:
        signal.setitimer(signal.ITIMER_PROF, 0)
        signal.alarm(0)
        signal.signal(signal.SIGALRM, old)
        signal.signal(signal.SIGPROF, oldp)
    r = obs.result()
    r['status'] = status
    r['cpu_s'] = time.process_time() - t0
    return r


def worker(prop, tier, k, n, outpath, base_seed):
    import faulthandler
    faulthandler.enable()
    cov = None
    if os.environ.get('MV_COVER'):      # diagnostic only (tools/cover.sh): which lines of mystic the workload reaches
        import coverage
        cov = coverage.Coverage(data_file=os.path.join(os.environ['MV_COVER'], 'cov.%s' % prop), data_suffix=True, source=[os.path.join(env.REPO, 'mystic')])
        cov.start()
    mod = load(prop)
    cases = all_cases(mod, tier)
    mine = [c for i, c in enumerate(cases) if i % n == k]
    agg = {'cases': 0, 'classes': {}, 'events': {}, 'nontrivial_keys': [], 'violations': [],
           'nviol': 0, 'samples': [], 'timeouts': [], 'skipped': 0, 'slowest': [0.0, None, None], 'known': {}, 'dropped_unexplained': 0}
    from . import findings
    keys = set()
    persample = {}
    t0 = time.time()
    devnull = open(os.devnull, 'w')
    real_stdout = sys.stdout
    for cls, idx in mine:
        sys.stdout = devnull     # mystic prints convergence chatter; keep worker logs clean
        try:
            r = run_one(mod, cls, idx, base_seed)
        finally:
            sys.stdout = real_stdout
        agg['cases'] += 1
        c = agg['classes'].setdefault(cls, {'cases': 0, 'nontrivial': 0, 'skipped': 0, 'violating': 0})
        c['cases'] += 1
        if r['cpu_s'] > agg['slowest'][0]:
            agg['slowest'] = [round(r['cpu_s'], 3), cls, idx]
        if r['status'] == 'timeout':          # what the monitors recorded before the watchdog fired still counts
            agg['timeouts'].append([cls, idx])
            r['nontrivial'] = False
        if r['skipped']:
            c['skipped'] += 1
            agg['skipped'] += 1
        for e, v in r['events'].items():
            agg['events'][e] = agg['events'].get(e, 0) + v
        if r['nontrivial'] and not r['skipped']:
            if r['key'] not in keys:
                keys.add(r['key'])
                c['nontrivial'] += 1
                if persample.get(cls, 0) < 2:
                    persample[cls] = persample.get(cls, 0) + 1
                    agg['samples'].append({'class': cls, 'idx': idx, 'case': r['desc'],
                                           'observed': r['notes'], 'events': r['events']})
        if r['violations']:
            c['violating'] += 1
            agg['nviol'] += r['nviol']
            for v in r['violations']:
                # records of listed findings are counted here and only a few are kept: they must never crowd a different violation out of the capped list
                rec = {'class': cls, 'idx': idx, 'seed': r['seed'], 'desc': r['desc'], 'record': v}
                fid = findings.classify(prop, rec)
                if fid:
                    agg['known'][fid] = agg['known'].get(fid, 0) + 1
                elif len(agg['violations']) < MAXV_WORKER:
                    agg['violations'].append(rec)
                else:
                    agg['dropped_unexplained'] += 1
    if cov is not None:
        cov.stop(); cov.save()
    agg['nontrivial_keys'] = sorted(keys)
    agg['wall_s'] = time.time() - t0
    with open(outpath, 'w') as f:
        json.dump(agg, f)
    return 0


def write_evidence(mod, tier, base_seed, cov, nviol, wall, assumptions):
    ev = {'property_id': mod.PROPERTY, 'tier': tier, 'seed': base_seed,
          'level': getattr(mod, 'LEVEL', 'exploration'), 'coverage': cov,
          'assumptions': assumptions, 'wall_s': round(wall, 3), 'violations': nviol}
    path = os.path.join(env.VERIF, 'evidence', '%s.json' % mod.PROPERTY)
    if os.path.realpath(env.REPO) != '/repo':   # scratch copy (self-test): never touch committed evidence
        path = os.path.join(env.OUT, 'evidence-scratch-%s.json' % mod.PROPERTY)
    os.makedirs(os.path.dirname(path), exist_ok=True)
    ev = jsonable(ev)
    try:
        import jsonschema
        schema = json.load(open(os.path.join(env.VERIF, 'schemas', 'EVIDENCE.schema.json')))
        jsonschema.validate(ev, schema)
    except ImportError:
        pass
    tmp = path + '.tmp'
    with open(tmp, 'w') as f:
        json.dump(ev, f, indent=1, sort_keys=True)
        f.write('\n')
    os.replace(tmp, path)
    return path


def main(argv=None):
    ap = argparse.ArgumentParser()
    ap.add_argument('prop')
    ap.add_argument('--tier', default=None)
    ap.add_argument('--replay', default=None)
    ap.add_argument('--worker', nargs=3, default=None)   # k n outpath
    ap.add_argument('--workers', type=int, default=NWORKERS)
    ap.add_argument('--seed', type=int, default=None)
    a = ap.parse_args(argv)
    prop = a.prop.upper()
    tier = a.tier or env.tier()
    base_seed = env.seed() if a.seed is None else a.seed

    if a.worker:
        k, n, outpath = int(a.worker[0]), int(a.worker[1]), a.worker[2]
        return worker(prop, tier, k, n, outpath, base_seed)

    mod = load(prop)
    if a.replay:
        rp = json.load(open(a.replay))
        r = run_one(mod, rp['class'], rp['idx'], rp.get('base_seed', base_seed))
        print(json.dumps(r, indent=1))
        from . import findings
        unexplained = [v for v in r['violations']
                       if not findings.classify(prop, {'class': r['class'], 'idx': r['idx'],
                                                       'desc': r['desc'], 'record': v})]
        if unexplained:
            print('VIOLATION property=%s replay=%s' % (prop, a.replay))
            return 1
        return 0

    t0 = time.time()
    os.makedirs(env.OUT, exist_ok=True)
    import glob
    for old in glob.glob(os.path.join(env.VERIF, 'replays', '%s-*.json' % prop)):   # replays of earlier runs are stale
        try: os.remove(old)
        except OSError: pass
    cases = all_cases(mod, tier)
    n = max(1, min(a.workers, len(cases), os.cpu_count() or 1))
    wtimeout = int(getattr(mod, 'WORKER_TIMEOUT', {}).get(tier, 900 if tier == 'quick' else 5400))
    procs = []
    wenv = dict(os.environ)
    wenv.update({'PYTHONHASHSEED': '0', 'PYTHONDONTWRITEBYTECODE': '1', 'MYSTIC_VERIF': '1',
                 'VERIF_SEED': str(base_seed), 'VERIF_TIER': tier,
                 'OMP_NUM_THREADS': '1', 'OPENBLAS_NUM_THREADS': '1', 'MKL_NUM_THREADS': '1'})
    tag = '%s-%s-%d' % (prop, tier, os.getpid())
    for k in range(n):
        outpath = os.path.join(env.OUT, '%s.w%d.json' % (tag, k))
        logpath = os.path.join(env.OUT, '%s.w%d.log' % (tag, k))
        cmd = [sys.executable, '-m', 'mv.runner', prop, '--tier', tier, '--seed', str(base_seed),
               '--worker', str(k), str(n), outpath]
        lf = open(logpath, 'w')
        p = subprocess.Popen(cmd, cwd=env.VERIF, env=wenv, stdout=lf, stderr=subprocess.STDOUT,
                             stdin=subprocess.DEVNULL)
        procs.append((p, outpath, logpath, lf))
    dead = []
    parts = []
    deadline = time.time() + wtimeout
    for p, outpath, logpath, lf in procs:
        try:
            rc = p.wait(timeout=max(1, deadline - time.time()))
        except subprocess.TimeoutExpired:
            p.kill(); p.wait(); rc = 'timeout'
        lf.close()
        if rc == 0 and os.path.exists(outpath):
            parts.append(json.load(open(outpath)))
            os.remove(outpath)
            try: os.remove(logpath)
            except OSError: pass
        else:
            dead.append({'rc': rc, 'log': logpath})

    # ---- aggregate
    from . import findings
    ncases = sum(p['cases'] for p in parts)
    events, classes, keys, viols, samples, timeouts = {}, {}, set(), [], [], []
    slowest = [0.0, None, None]
    nviol = 0
    for p in parts:
        for e, v in p['events'].items():
            events[e] = events.get(e, 0) + v
        for c, d in p['classes'].items():
            t = classes.setdefault(c, {'cases': 0, 'nontrivial': 0, 'skipped': 0, 'violating': 0})
            for kk in t: t[kk] += d[kk]
        keys.update(p['nontrivial_keys'])
        viols.extend(p['violations'])
        nviol += p['nviol']
        samples.extend(p['samples'])
        timeouts.extend(p['timeouts'])
        if p.get('slowest', [0])[0] > slowest[0]: slowest = p['slowest']
    samples.sort(key=lambda s: (s['class'], s['idx']))
    seen, keep = {}, []
    for s in samples:
        if seen.get(s['class'], 0) < 1 or len(keep) < 3:
            seen[s['class']] = seen.get(s['class'], 0) + 1
            keep.append(s)
    samples = keep[:8]

    known = findings.listed(prop)
    known_counts = {k['id']: 0 for k in known}
    for p in parts:
        for fid, cnt in p.get('known', {}).items():
            known_counts[fid] = known_counts.get(fid, 0) + cnt
    unexplained = []
    for v in viols:          # (workers keep unexplained records only; classified again here so that a stale worker file cannot smuggle one through)
        fid = findings.classify(prop, v)
        if fid:
            known_counts[fid] = known_counts.get(fid, 0) + 1
        else:
            unexplained.append(v)
    dropped = sum(p.get('dropped_unexplained', 0) for p in parts)

    inconclusive = []
    if dead:
        inconclusive.append('%d worker(s) died or timed out: %s' % (len(dead), dead))
    if timeouts:
        inconclusive.append('%d case(s) hit the per-case watchdog: %s' % (len(timeouts), timeouts[:5]))
    for ename, emin in getattr(mod, 'MIN_EVENTS', {}).get(tier, getattr(mod, 'MIN_EVENTS', {}).get('quick', {})).items():
        if events.get(ename, 0) < emin:
            inconclusive.append('deciding monitor %r observed %d events (< %d)' % (ename, events.get(ename, 0), emin))
    for c, d in classes.items():
        if d['cases'] and d['skipped'] * 2 > d['cases'] and not mod.CLASSES[c].get('hostile'):
            inconclusive.append('class %s: %d of %d cases skipped' % (c, d['skipped'], d['cases']))
    if len(keys) < 2:
        inconclusive.append('only %d distinct non-trivial cases' % len(keys))

    cov = {'evaluations': ncases, 'distinct_nontrivial': len(keys), 'rule': mod.RULE,
           'samples': samples or [{'note': 'no non-trivial sample'}],
           'monitor_events': events, 'classes': classes,
           'known_findings_observed': known_counts, 'inconclusive': inconclusive,
           'workers': n, 'slowest_case': {'cpu_s': slowest[0], 'class': slowest[1], 'idx': slowest[2], 'watchdog_cpu_s': int(getattr(mod, 'CASE_TIMEOUT', 120))},
           'unexplained_records_beyond_the_cap': dropped,
           'unexplained_violation_records': len(unexplained),
           'violation_records_total': nviol}
    wall = time.time() - t0
    write_evidence(mod, tier, base_seed, cov, len(unexplained) + dropped, wall, list(getattr(mod, 'ASSUMPTIONS', [])))

    print('%s tier=%s seed=%d cases=%d distinct_nontrivial=%d wall=%.1fs' %
          (prop, tier, base_seed, ncases, len(keys), wall))
    print('monitor events: ' + ', '.join('%s=%d' % kv for kv in sorted(events.items())))
    for k in known:
        print('KNOWN-FINDING: property=%s %s (observed=%d)' % (prop, k['what'], known_counts.get(k['id'], 0)))
    rc = 0
    if unexplained:
        os.makedirs(os.path.join(env.VERIF, 'replays'), exist_ok=True)
        done = set()
        for v in unexplained:
            sig = (v['class'], v['idx'])
            if sig in done: continue
            done.add(sig)
            path = os.path.join(env.VERIF, 'replays', '%s-%s.json' % (prop, digest([v['class'], v['idx'], base_seed])))
            json.dump({'property': prop, 'class': v['class'], 'idx': v['idx'], 'base_seed': base_seed,
                       'desc': v['desc'], 'records': [w['record'] for w in unexplained
                                                      if (w['class'], w['idx']) == sig]},
                      open(path, 'w'), indent=1)
            if len(done) <= 10:
                print('  clause=%s class=%s idx=%s' % (v['record'].get('clause'), v['class'], v['idx']))
                print('VIOLATION property=%s replay=%s' % (prop, path))
        rc = 1
    if inconclusive and rc == 0:
        for why in inconclusive:
            print('INCONCLUSIVE property=%s reason=%s' % (prop, why))
        rc = 2
    return rc


if __name__ == '__main__':
    sys.exit(main())
