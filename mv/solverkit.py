"""generators and probes shared by the solver-level monitors (C01-C09, C11).

Everything is described by JSON-able specs so a case can be replayed; the live
objects (cost, constraints, penalty, solver) are built from the spec."""
import math, random as _random
import numpy as np

INF = float('inf')


# ------------------------------------------------------------------ cost zoo
def make_cost(spec):
    """spec = [name, params...] -> python callable on a sequence (returns float, or ndarray for 'array')"""
    name = spec[0]
    if name == 'sphere':
        c = spec[1]
        return lambda x: float(sum((xi - ci) * (xi - ci) for xi, ci in zip(x, c)))
    if name == 'illquad':
        c, k = spec[1], spec[2]
        return lambda x: float(sum(ki * (xi - ci) * (xi - ci) for xi, ci, ki in zip(x, c, k)))
    if name == 'rosen':
        def f(x):
            x = [float(v) for v in x]
            sq = lambda v: v * v
            if len(x) == 1: return sq(1 - x[0])
            return float(sum(100.0 * sq(x[i + 1] - sq(x[i])) + sq(1 - x[i]) for i in range(len(x) - 1)))
        return f
    if name == 'abs':
        c = spec[1]
        return lambda x: float(sum(abs(xi - ci) for xi, ci in zip(x, c)))
    if name == 'maxnorm':
        c = spec[1]
        return lambda x: float(max(abs(xi - ci) for xi, ci in zip(x, c)))
    if name == 'step':       # plateaus -> ties
        c = spec[1]
        return lambda x: float(sum(float(math.floor(2 * (xi - ci)) if math.isfinite(xi) else xi) ** 2 if abs(xi) < 1e150 else INF for xi, ci in zip(x, c)))
    if name == 'flat':       # depends on the first k coordinates only
        c, k = spec[1], spec[2]
        return lambda x: float(sum((xi - ci) * (xi - ci) for xi, ci in list(zip(x, c))[:k]))
    if name == 'tied':       # minimum along x0 == x1
        c = spec[1]
        return lambda x: float((x[0] - x[-1]) * (x[0] - x[-1]) + sum((xi - ci) * (xi - ci) for xi, ci in list(zip(x, c))[1:-1]) + 0.1 * (x[0] - c[0]) * (x[0] - c[0]))
    if name == 'infregion':  # +inf on a half space
        c, t = spec[1], spec[2]
        return lambda x: INF if x[0] > t else float(sum((xi - ci) * (xi - ci) for xi, ci in zip(x, c)))
    if name == 'plateau':    # flat-bottomed bowl: exact ties between different points (and between ensemble members)
        c, w = spec[1], spec[2]
        return lambda x: float(sum(max(0.0, abs(xi - ci) - w) * max(0.0, abs(xi - ci) - w) for xi, ci in zip(x, c)))
    if name == 'array':      # vector valued (for reducers)
        c = spec[1]
        return lambda x: np.array([(xi - ci) * (xi - ci) + 0.5 for xi, ci in zip(x, c)] + [0.25 * abs(x[0])])
    if name == 'array1':     # vector valued with exactly one component (which may be negative): a reducer still has to be applied to it
        c = spec[1]
        return lambda x: np.array([sum((xi - ci) * (xi - ci) for xi, ci in zip(x, c)) - 3.0])
    raise KeyError(name)


def gen_cost(rng, dim, kinds=None):
    kinds = kinds or ['sphere', 'illquad', 'rosen', 'abs', 'maxnorm', 'step', 'flat', 'infregion']
    name = rng.choice(kinds)
    c = [round(rng.uniform(-2, 2), 2) for _ in range(dim)]
    if name == 'illquad': return [name, c, [10.0 ** rng.randint(0, 4) for _ in range(dim)]]
    if name == 'rosen': return [name]
    if name == 'flat': return [name, c, rng.randint(1, max(1, dim - 1))]
    if name == 'infregion': return [name, c, c[0] + rng.choice([0.5, 2.0])]
    if name == 'tied' and dim < 2: return ['sphere', c]
    if name == 'plateau': return [name, c, rng.choice([0.5, 1.0, 2.0])]
    return [name, c]


# ------------------------------------------------------------------ constraint zoo
def make_constraint(spec, inplace=False):
    """deterministic idempotent constraints; inplace=True mutates and returns its argument"""
    kind = spec[0]
    def apply(x):
        if kind == 'pin':
            x[spec[1]] = spec[2]
        elif kind == 'clamp':
            i, lo, hi = spec[1:4]
            x[i] = min(max(x[i], lo), hi)
        elif kind == 'grid':          # round every entry to a multiple of h
            h = spec[1]
            for i in range(len(x)): x[i] = round(x[i] / h) * h
        elif kind == 'ints':
            for i in spec[1]: x[i] = float(round(x[i]))
        elif kind == 'intall':        # every entry rounded; the pure form hands back INTEGERS (python ints or an integer array)
            for i in range(len(x)): x[i] = float(round(x[i]))
        elif kind == 'tie':           # x[j] = x[i]
            x[spec[2]] = x[spec[1]]
        elif kind == 'affine':        # x[j] = a*x[i] + b
            i, j, a, b = spec[1:5]
            x[j] = a * x[i] + b
        elif kind == 'floor':         # every entry >= lo
            for i in range(len(x)): x[i] = max(x[i], spec[1])
        elif kind == 'pushout':       # hostile: moves entry i far away
            x[spec[1]] = spec[2]
        else:
            raise KeyError(kind)
        return x
    if inplace:
        def c(x):
            return apply(x)
    else:
        def c(x):
            y = [float(v) for v in x]
            y = apply(y)
            if kind == 'intall':
                y = [int(v) for v in y]
                return np.array(y, dtype=int) if spec[1] == 'npint' else y
            return np.array(y) if isinstance(x, np.ndarray) else y
    c.spec = spec
    return c


def ref_constraint(spec):
    """the oracle's own pure copy working on plain float lists"""
    f = make_constraint(spec, inplace=False)
    return lambda x: [float(v) for v in f([float(v) for v in x])]


def gen_constraint(rng, dim, box=None):
    """box-compatible (maps the box into itself) when a box is given"""
    def inside(i):
        if not box: return round(rng.uniform(-2, 2), 1)
        lo, hi = box['lo'][i], box['hi'][i]
        lo = max(lo, -50.0); hi = min(hi, 50.0)
        return round(lo + (hi - lo) * rng.choice([0.0, 0.25, 0.5, 1.0]), 6)
    r = rng.random()
    if r < 0.3: i = rng.randrange(dim); return ['pin', i, inside(i)]
    if r < 0.5:
        i = rng.randrange(dim); a, b = sorted([inside(i), inside(i)]); return ['clamp', i, a, b]
    if r < 0.62 and not box: return ['grid', rng.choice([0.5, 0.25, 1.0])]
    if r < 0.66 and not box: return ['ints', sorted(rng.sample(range(dim), rng.randint(1, dim)))]
    if r < 0.74 and not box: return ['intall', rng.choice(['pyint', 'npint'])]
    if r < 0.86 and dim > 1:
        i, j = rng.sample(range(dim), 2)
        if box and not (box['lo'][j] <= box['lo'][i] and box['hi'][i] <= box['hi'][j]): return ['pin', i, inside(i)]
        return ['tie', i, j]
    if r < 0.93 and dim > 1 and not box:
        i, j = rng.sample(range(dim), 2); return ['affine', i, j, rng.choice([2.0, -1.0, 0.5]), rng.choice([0.0, 1.0])]
    if not box: return ['floor', rng.choice([-1.0, 0.0])]
    i = rng.randrange(dim); return ['pin', i, inside(i)]


# ------------------------------------------------------------------ penalty zoo
def _dot(a, x):
    # a.x - b cancels, and a penalty multiplies what is left by k: the harness-side condition and the reference must therefore not depend on
    # whether mystic hands over a list or an array (builtin sum is compensated for python floats only), so both convert to float first
    return sum(float(ai) * float(xi) for ai, xi in zip(a, x))


def make_penalty(spec):
    if spec is None: return None
    kind = spec[0]
    if kind == 'plain':       # k*max(0, a.x - b)^2
        a, b, k = spec[1:4]
        return lambda x: float(k * max(0.0, _dot(a, x) - b) ** 2)
    if kind == 'mystic':
        import mystic.penalty as mp
        ptype, a, b, k = spec[1:5]
        cond = lambda x: float(_dot(a, x) - b)
        return getattr(mp, ptype)(cond, k=k)(lambda x: 0.0)
    raise KeyError(kind)


def ref_penalty(spec):
    """independent evaluation of the same penalty (documented formulas)"""
    if spec is None: return lambda x: 0.0
    kind = spec[0]
    if kind == 'plain':
        a, b, k = spec[1:4]
        return lambda x: float(k * max(0.0, _dot(a, x) - b) ** 2)
    ptype, a, b, k = spec[1:5]
    g = lambda x: float(_dot(a, x) - b)
    if ptype == 'quadratic_inequality': return lambda x: float(2 * k) * max(0.0, g(x)) ** 2
    if ptype == 'linear_inequality': return lambda x: float(2 * k) * max(0.0, g(x))
    if ptype == 'quadratic_equality': return lambda x: float(k) * g(x) ** 2
    if ptype == 'linear_equality': return lambda x: float(k) * abs(g(x))
    raise KeyError(ptype)


def gen_penalty(rng, dim):
    a = [rng.choice([-1.0, 0.5, 1.0, 2.0]) for _ in range(dim)]
    b = rng.choice([-1.0, 0.0, 1.0])
    if rng.random() < 0.4: return ['plain', a, b, rng.choice([1.0, 10.0, 100.0])]
    return ['mystic', rng.choice(['quadratic_inequality', 'linear_inequality', 'quadratic_equality', 'linear_equality']), a, b, rng.choice([1, 10, 100])]


# ------------------------------------------------------------------ boxes
def gen_box(rng, dim, x0=None, shape=None):
    shape = shape or rng.choice(['finite', 'finite', 'finite', 'degenerate', 'onesided', 'infinite', 'none_entries', 'far'])
    lo, hi = [], []
    for i in range(dim):
        c = 0.0 if x0 is None else x0[i]
        a = round(rng.uniform(-4, 1), 1); b = round(a + rng.uniform(0.5, 6), 1)
        if shape == 'far': a += 20.0; b += 20.0
        lo.append(a); hi.append(b)
    if shape == 'degenerate':
        i = rng.randrange(dim); hi[i] = lo[i]
    if shape == 'onesided':
        for i in rng.sample(range(dim), rng.randint(1, min(2, dim))):
            if rng.random() < 0.5: lo[i] = -INF
            else: hi[i] = INF
    if shape == 'infinite':
        i = rng.randrange(dim); lo[i], hi[i] = -INF, INF
    return {'lo': lo, 'hi': hi, 'shape': shape}


def box_args(box):
    """arguments for SetStrictRanges (None entries exercise the documented defaults)"""
    lo, hi = list(box['lo']), list(box['hi'])
    return lo, hi


def in_box(x, box, slack=0.0):
    return all(lo - slack <= float(v) <= hi + slack for v, lo, hi in zip(x, box['lo'], box['hi']))


# ------------------------------------------------------------------ probes
_PROBES = {}


def _lookup_probe(key):
    return _PROBES[key]


class CostProbe(object):
    """the user's cost: logs every call (sequence number, copy of the argument, returned value);
    optional in-call checks see the exact argument.  Copies (deepcopy / dill round trips made by
    ensembles and by solver copies) resolve to the SAME live probe, so no call escapes the log."""
    def __init__(self, f, keep=200000):
        self.key = len(_PROBES)
        _PROBES[self.key] = self
        self.f = f
        self.calls = []           # (x tuple, y)
        self.n = 0
        self.hooks = []           # callables (seq, xlist) run before evaluating
        self.keep = keep
        self.args_ok = True

    def __call__(self, x, *args):
        xl = [float(v) for v in x]
        seq = self.n
        self.n += 1
        for h in self.hooks:
            h(seq, xl)
        y = self.f(xl, *args) if (args or getattr(self, 'always_args', False)) else self.f(xl)
        if len(self.calls) < self.keep:
            self.calls.append((tuple(xl), y))
        return y

    def seen(self):
        return set(c[0] for c in self.calls)

    def __deepcopy__(self, memo):
        return self

    def __copy__(self):
        return self

    def __reduce__(self):
        return (_lookup_probe, (self.key,))


def probe_for(cfg):
    """the cost of a configuration as a probe; with cfg['extra_args'] the cost has the form cost(x, *ExtraArgs) and insists on being handed them"""
    raw = make_cost(cfg['cost'])
    probe = CostProbe(raw)
    xa = tuple(cfg['extra_args']) if cfg.get('extra_args') else None
    if xa:
        def f(x, *args):
            if args != xa: raise AssertionError('cost called with ExtraArgs %r, configured %r' % (args, xa))
            return raw(x) + args[0]
        probe.f = f; probe.always_args = True
    return probe


def fnum(v):
    try:
        return float(v)
    except Exception:
        return float(np.asarray(v).ravel()[0])


def snap(solver):
    """public observable state after an API call"""
    pop = [[float(v) for v in m] for m in solver.population]
    ene = [fnum(e) for e in solver.popEnergy]
    bs = solver.bestSolution
    best = None if bs is None else [float(v) for v in np.asarray(bs, dtype=float).ravel()]
    be = solver.bestEnergy
    return {'pop': pop, 'ene': ene, 'best': best, 'bestE': None if be is None else fnum(be),
            'gens': int(solver.generations), 'evals': int(solver.evaluations),
            'ehist': [fnum(e) for e in solver.energy_history], 'nstep': len(solver._stepmon)}


def new_solver(cfg):
    from mystic.solvers import (NelderMeadSimplexSolver, PowellDirectionalSolver,
                                DifferentialEvolutionSolver, DifferentialEvolutionSolver2)
    k, dim = cfg['solver'], cfg['dim']
    if k == 'nm': s = NelderMeadSimplexSolver(dim)
    elif k == 'powell': s = PowellDirectionalSolver(dim)
    elif k == 'de': s = DifferentialEvolutionSolver(dim, cfg.get('npop', 4 * dim))
    elif k == 'de2': s = DifferentialEvolutionSolver2(dim, cfg.get('npop', 4 * dim))
    else: raise KeyError(k)
    return s


def init_points(s, cfg):
    if cfg['solver'] in ('de', 'de2') and cfg.get('init', 'random') == 'random':
        lo, hi = cfg.get('init_lo'), cfg.get('init_hi')
        s.SetRandomInitialPoints(list(lo), list(hi))
    else:
        s.SetInitialPoints(list(cfg['x0']))


def step_kwargs(cfg):
    kw = {}
    if cfg['solver'] in ('de', 'de2'):
        import mystic.strategy as st
        kw = {'strategy': getattr(st, cfg.get('strategy', 'Best1Bin')), 'CrossProbability': cfg.get('CR', 0.9),
              'ScalingFactor': cfg.get('F', 0.8)}
    elif cfg['solver'] == 'nm':
        kw = {'radius': cfg.get('radius', 0.05), 'adaptive': cfg.get('adaptive', False)}
    elif cfg['solver'] == 'powell':
        kw = {'xtol': cfg.get('xtol', 1e-4), 'imax': cfg.get('imax', 500)}
    return kw


def gen_solver_cfg(rng, solvers=('nm', 'powell', 'de', 'de2'), dims=(1, 5)):
    k = rng.choice(list(solvers))
    dim = rng.randint(*dims)
    cfg = {'solver': k, 'dim': dim, 'x0': [round(rng.uniform(-3, 3), 2) for _ in range(dim)]}
    if rng.random() < 0.12:       # a start far from the origin: relative steps (5% simplex edges, ...) are then larger than any rounding a constraint performs
        m = rng.choice([10.0, 40.0]); cfg['x0'] = [round(v * m, 1) for v in cfg['x0']]
    if rng.random() < 0.15: cfg['x0'][rng.randrange(dim)] = 0.0
    if k in ('de', 'de2'):
        cfg['npop'] = rng.choice([4, 5, 8, max(4, 2 * dim + 1)])
        cfg['strategy'] = rng.choice(['Best1Bin', 'Best1Exp', 'Rand1Bin', 'Rand1Exp', 'RandToBest1Bin', 'RandToBest1Exp',
                                      'Best2Bin', 'Best2Exp', 'Rand2Bin', 'Rand2Exp'])
        cfg['CR'] = rng.choice([0.1, 0.5, 0.9, 1.0, 0.0]); cfg['F'] = rng.choice([0.4, 0.8, 1.2])       # (CR = 0: a setting that is falsy and still a setting)
        if cfg['strategy'].startswith(('Best2', 'Rand2')): cfg['npop'] = max(cfg['npop'], 6)   # needs 5 distinct others
        cfg['init'] = rng.choice(['random', 'random', 'x0'])
        cfg['init_lo'] = [v - 2.0 for v in cfg['x0']]; cfg['init_hi'] = [v + 2.0 for v in cfg['x0']]
    elif k == 'nm':
        cfg['radius'] = rng.choice([0.05, 0.05, 0.2]); cfg['adaptive'] = rng.random() < 0.3
    else:
        cfg['xtol'] = rng.choice([1e-4, 1e-2])
        if rng.random() < 0.08: cfg['xtol'] = 0.0; cfg['imax'] = rng.choice([8, 25])      # exact line searches, bounded by imax: falsy and still a setting
    return cfg


class BoundsGuardTap(object):
    """counts out-of-box candidates that mystic answered with inf WITHOUT calling the cost
    (wraps the by-name imports of wrap_bounds in the three solver modules).  Only used to
    measure non-triviality, never for a verdict."""
    MODS = ('mystic.abstract_solver', 'mystic.differential_evolution', 'mystic.scipy_optimize')

    def __init__(self):
        self.rejected = 0
        self._orig = {}

    def __enter__(self):
        import importlib
        tap = self
        for name in self.MODS:
            mod = importlib.import_module(name)
            orig = getattr(mod, 'wrap_bounds', None)
            if orig is None: continue
            self._orig[name] = orig
            def make(orig):
                def wrap_bounds(target_function, min=None, max=None):
                    called = [False]
                    def target2(x):
                        called[0] = True
                        return target_function(x)
                    inner = orig(target2, min, max)
                    def function_wrapper(x):
                        called[0] = False
                        r = inner(x)
                        if not called[0]: tap.rejected += 1
                        return r
                    return function_wrapper
                return wrap_bounds
            setattr(mod, 'wrap_bounds', make(orig))
        return self

    def __exit__(self, *a):
        import importlib
        for name, orig in self._orig.items():
            setattr(importlib.import_module(name), 'wrap_bounds', orig)
