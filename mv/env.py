"""path / seed / tier plumbing shared by every check"""
import os, sys, hashlib

VERIF = os.path.dirname(os.path.dirname(os.path.abspath(__file__)))
REPO = os.environ.get('MYSTIC_VERIF_REPO', '/repo')
DEPS = os.path.join(VERIF, '.deps')
OUT = os.path.join(VERIF, '.out')


def setup_paths():
    """make `import mystic` resolve to the working tree under test and the monitor
    dependencies (icontract, deal, jsonschema) importable"""
    for p in (DEPS, REPO):
        if p in sys.path:
            sys.path.remove(p)
    sys.path.insert(0, DEPS)
    sys.path.insert(0, REPO)
    os.environ.setdefault('MYSTIC_VERIF', '1')


def seed():
    try:
        return int(os.environ.get('VERIF_SEED', '0'))
    except ValueError:
        return 0


def tier(default='quick'):
    t = os.environ.get('VERIF_TIER', default)
    return t if t in ('quick', 'thorough') else default


def case_seed(prop, cls, idx, base=None):
    base = seed() if base is None else base
    h = hashlib.sha256(('%s|%s|%s|%s' % (base, prop, cls, idx)).encode()).digest()
    return int.from_bytes(h[:8], 'big')
