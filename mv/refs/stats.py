"""textbook weighted statistics and distances (pure python, fsum-based), independent of mystic"""
import math


def wsum(w): return math.fsum(w)
def wmean(x, w=None):
    if w is None: return math.fsum(x) / len(x)
    return math.fsum(a * b for a, b in zip(x, w)) / math.fsum(w)
def wmoment(x, w=None, order=2):
    m = wmean(x, w)
    return wmean([(a - m) ** order for a in x], w)
def wvar(x, w=None): return wmoment(x, w, 2)
def wstd(x, w=None): return math.sqrt(wvar(x, w))
def spread(x): return max(x) - min(x)
def support(x, w, tol=0): return [a for a, b in zip(x, w) if b > tol]
def median(x):
    s = sorted(x); n = len(s)
    return s[n // 2] if n % 2 else 0.5 * (s[n // 2 - 1] + s[n // 2])
def mad(x):
    m = median(x)
    return median([abs(a - m) for a in x])
def trimmed(x, kpct):
    """unweighted symmetric trimming of k percent from each end (k*n/100 must be whole)"""
    s = sorted(x); n = len(s); c = int(round(kpct * n / 100.0))
    return s[c:n - c]
def lnorm(w, p):
    a = [abs(float(v)) for v in w]
    if p == 0: return float(sum(1 for v in a if v != 0))
    if p == math.inf: return max(a)
    return math.fsum(v ** p for v in a) ** (1.0 / p)
def dist(x, y, p):
    d = [abs(a - b) for a, b in zip(x, y)]
    if p == 0: return float(sum(1 for v in d if v != 0))
    if p == math.inf: return max(d)
    return math.fsum(v ** p for v in d) ** (1.0 / p)
def close(a, b, rel=1e-9, ab=1e-12):
    if a == b: return True
    if math.isnan(a) or math.isnan(b): return False
    return abs(a - b) <= rel * max(abs(a), abs(b)) + ab
