"""independent evaluation of the documented termination inequalities.

`view` is plain data: hist (energy history), pop, ene, best, trial, grad (exact gradient
of the linear cost), generations, evaluations, exit.  Answers are three-valued: True /
False / None (within the boundary band or outside the judged domain)."""
import math

PRIMITIVES = ['VTR', 'ChangeOverGeneration', 'NormalizedChangeOverGeneration',
              'CandidateRelativeTolerance', 'SolutionImprovement', 'NormalizedCostTarget',
              'VTRChangeOverGeneration', 'PopulationSpread', 'GradientNormTolerance',
              'EvaluationLimits', 'TimeLimits', 'SolverInterrupt']
BAND = 1e-9


def le(lhs, rhs, scale=None):
    """lhs <= rhs with a not-judged band around equality"""
    if math.isnan(lhs) or math.isnan(rhs):
        return False
    if math.isinf(lhs) or math.isinf(rhs):
        return lhs <= rhs
    m = max(abs(lhs), abs(rhs), scale or 0.0)
    if abs(lhs - rhs) <= BAND * m + 1e-300:
        return None if lhs != rhs else True
    return lhs < rhs


def diff(a, b):
    """a - b where equal values (including equal infinities) differ by 0"""
    return 0.0 if a == b else a - b


def window(hist, g):
    """(cost[-g], cost[-1]) or None when the window does not fit strictly inside"""
    lg = len(hist)
    g = 0 if g is None else int(g)
    if not lg or lg <= g:
        return None
    return hist[-g], hist[-1]     # g == 0 -> hist[0]: first vs last


def and3(*xs):
    if any(x is False for x in xs): return False
    if any(x is None for x in xs): return None
    return True


def or3(*xs):
    if any(x is True for x in xs): return True
    if any(x is None for x in xs): return None
    return False


def lnorm(v, p):
    v = [abs(float(x)) for x in v]
    if p == float('inf'):
        return max(v)
    return sum(x ** p for x in v) ** (1.0 / p)


def solution_improvement_value(view):
    best, trial = view['best'], view['trial']
    if trial and isinstance(trial[0], (list, tuple)):
        return max(sum(abs(b - t) for b, t in zip(best, row)) for row in trial)
    return sum(abs(b - t) for b, t in zip(best, trial))


def population_spread_value(view):
    p0 = view['pop'][0]
    worst = 0.0
    for row in view['pop']:
        for a, b in zip(row, p0):
            if b:
                worst = max(worst, abs(a - b) / abs(b))
    return worst


def evaluate(name, kw, view):
    h = view['hist']
    if name == 'VTR':
        if not h: return False
        return le(abs(h[-1] - kw['target']), kw['tolerance'], abs(h[-1]))
    if name == 'ChangeOverGeneration':
        w = window(h, kw['generations'])
        if w is None: return False
        return le(diff(*w), kw['tolerance'], max(abs(w[0]), abs(w[1])) if all(map(math.isfinite, w)) else None)
    if name == 'NormalizedChangeOverGeneration':
        w = window(h, kw['generations'])
        if w is None: return False
        a, b = w
        if a == b: return True
        if not (math.isfinite(a) and math.isfinite(b)):
            return 2 * (a - b) <= kw['tolerance'] * (abs(a) + abs(b))
        return le(2.0 * (a - b), kw['tolerance'] * (abs(a) + abs(b)) + 1e-20, abs(a) + abs(b))
    if name == 'CandidateRelativeTolerance':
        pop, ene = view['pop'], view['ene']
        if len(pop) < 2: return None
        dx = max(abs(a - b) for row in pop[1:] for a, b in zip(row, pop[0]))
        df = max(abs(e - ene[0]) for e in ene[1:])
        return and3(le(dx, kw['xtol']), le(df, kw['ftol']))
    if name == 'SolutionImprovement':
        return le(solution_improvement_value(view), kw['tolerance'])
    if name == 'NormalizedCostTarget':
        if not h: return False
        fval, g = kw['fval'], kw['generations']
        g = 0 if g is None else int(g)
        if fval is None:
            if not g: return None                      # undocumented corner: not judged
            w = window(h, g)
            if w is None: return False
            return w[1] >= w[0]                        # no improvement over the window
        return le(abs(h[-1] - fval), abs(kw['tolerance'] * fval), abs(fval))
    if name == 'VTRChangeOverGeneration':
        if not h: return False
        w = window(h, kw['generations'])
        c1 = False if w is None else le(diff(*w), kw['gtol'],
                                        max(abs(w[0]), abs(w[1])) if all(map(math.isfinite, w)) else None)
        c2 = le(abs(h[-1] - kw['target']), kw['ftol'], abs(h[-1]))
        return or3(c1, c2)
    if name == 'PopulationSpread':
        p0 = view['pop'][0]
        out = []
        for row in view['pop']:
            for a, b in zip(row, p0):
                out.append(le(abs(a - b), abs(kw['tolerance'] * b), abs(b) * 1e-3))
        return and3(*out)
    if name == 'GradientNormTolerance':
        gn = lnorm(view['grad'], kw['norm'])
        # forward differences of a linear cost are exact up to rounding error ~1e-8 relative to |f|/eps
        if abs(gn - kw['tolerance']) <= 1e-5 * max(gn, kw['tolerance']) + 1e-6:
            return None
        return gn <= kw['tolerance']
    if name == 'EvaluationLimits':
        G, E = kw['generations'], kw['evaluations']
        return bool((G is not None and view['generations'] >= G) or (E is not None and view['evaluations'] >= E))
    if name == 'TimeLimits':
        return kw['seconds'] == 0
    if name == 'SolverInterrupt':
        return bool(view['exit'])
    raise KeyError(name)
