"""executable model of mystic.penalty as documented: a stack of layers, each with
state (n, stored[]); value per type from the docstring formulas."""
import math

INF = float('inf')
EQ = ('quadratic_equality', 'linear_equality', 'uniform_equality', 'lagrange_equality')
TYPES = ['quadratic_equality', 'linear_equality', 'uniform_equality', 'uniform_inequality',
         'barrier_inequality', 'quadratic_inequality', 'linear_inequality',
         'lagrange_inequality', 'lagrange_equality']
# types whose documented expression vanishes on the feasible set and is > 0 off it
ZERO_ON_FEASIBLE = ('quadratic_equality', 'linear_equality', 'uniform_equality', 'uniform_inequality',
                    'quadratic_inequality', 'linear_inequality')


class Layer(object):
    def __init__(self, ptype, cond, k, h):
        self.ptype, self.cond, self.k, self.h = ptype, cond, k, h
        self.n = 0
        self.y = []

    def violation(self, pf):
        return abs(pf) if self.ptype in EQ else max(0.0, pf)

    def stored(self, i):
        try:
            return self.y[i]
        except IndexError:
            return 0.0

    def term(self, pf):
        t, k, h, n = self.ptype, self.k, self.h, self.n
        pk = k * h ** n
        if t == 'quadratic_equality': return float(pk) * pf ** 2
        if t == 'linear_equality': return float(pk) * abs(pf)
        if t == 'uniform_equality': return float(k) * h ** n if pf != 0 else 0.0
        if t == 'uniform_inequality': return float(k) * h ** n if pf > 0 else 0.0
        if t == 'quadratic_inequality': return float(2 * pk) * max(0.0, pf) ** 2
        if t == 'linear_inequality': return float(2 * pk) * max(0.0, pf)
        if t == 'barrier_inequality':
            if pf > 0: return INF
            if pf == 0: return INF                     # -log(0)
            return -1.0 / (2 * pk) * math.log(-pf)
        if t == 'lagrange_equality':
            lam, kk = 0.0, k
            for i in range(n):
                lam += 2.0 * kk * self.stored(i)
                kk *= h
            return float(kk) * pf ** 2 + lam * pf
        if t == 'lagrange_inequality':
            beta, kk = 0.0, k
            for i in range(n):
                beta += 2.0 * kk * max(-beta / (2.0 * kk), self.stored(i))
                kk *= h
            mpf = max(-beta / (2.0 * kk), pf)
            return float(kk) * mpf ** 2 + beta * mpf
        raise KeyError(t)


class Stack(object):
    """layers[0] is the outermost decorator; base(x) is the decorated function"""
    def __init__(self, layers, base):
        self.layers, self.base = layers, base

    def value(self, x):
        total = 0.0
        for L in self.layers:
            try:
                pf = L.cond(x)
            except ZeroDivisionError:
                return INF
            t = L.term(pf)
            if L.ptype == 'barrier_inequality' and t == INF:
                return INF
            total += t
        return total + self.base(x)

    def value_nested(self, x, j=0):
        """exact association order of the real nesting: term_j + (term_j+1 + (... + base))"""
        if j == len(self.layers):
            return self.base(x)
        L = self.layers[j]
        try:
            pf = L.cond(x)
        except ZeroDivisionError:
            return INF
        t = L.term(pf)
        if L.ptype == 'barrier_inequality' and t == INF:
            return INF
        return t + self.value_nested(x, j + 1)

    def error(self, x, j=0):
        if j == len(self.layers):
            return None
        L = self.layers[j]
        try:
            v = L.violation(L.cond(x))
        except ZeroDivisionError:
            return INF
        inner = self.error(x, j + 1)
        rms = v ** 2 + (inner ** 2 if inner is not None else 0.0)
        return rms ** 0.5

    # `level` = the layer the call is made on (0 = outermost): a call on an inner layer reaches that layer and the ones below it only,
    # so the layers' iteration counts may differ; iter() without an index advances every reached layer by one from ITS OWN count
    def iter(self, i=None, level=0):
        for L in self.layers[level:]:
            if i is None: L.n += 1
            else: L.n = i

    def iteration(self, level=0):
        return self.layers[level].n

    def clear(self, level=0):
        for L in self.layers[level:]:
            L.n = 0
            L.y = []

    def store(self, x, i=None, level=0):
        """only lagrange layers keep multipliers; the index defaults to the current iteration of the first lagrange layer reached,
        which hands the resolved index on to the layers below it"""
        for L in self.layers[level:]:
            if L.ptype.startswith('lagrange'):
                try:
                    y = L.cond(x)
                except ZeroDivisionError:
                    y = INF
                if i is None: i = L.n
                l = len(L.y)
                if i >= l: L.y.extend([0.0] * (i - l) + [y])
                else: L.y[i] = y

    def stored(self, level=0):
        return list(self.layers[level].y)
