"""Powell's direction-set method (Numerical Recipes / scipy 0.6 fmin_powell loop), written
independently of mystic's solver class and parameterised by the line minimiser (the property
says 'given the same Brent line search': mystic._scipy060optimize.brent is passed in)."""
import numpy as np


def fmin_powell(func, x0, brent, xtol=1e-4, ftol=1e-4, maxiter=None, maxfun=None, direc=None):
    calls = [0]
    def f(x):
        calls[0] += 1
        return func(x)
    def linesearch(p, xi, tol):
        g = lambda alpha: f(p + alpha * xi)
        old = np.seterr(all='ignore')
        alpha_min, fret, it, num = brent(g, full_output=1, tol=tol, maxiter=500)
        np.seterr(**old)
        xi = alpha_min * xi
        return float(np.squeeze(fret)), p + xi, xi
    x = np.asarray(x0, dtype=float).flatten()
    N = len(x)
    if maxiter is None: maxiter = N * 1000
    if maxfun is None: maxfun = N * 1000
    direc = np.eye(N, dtype=float) if direc is None else np.array(direc, dtype=float)
    fval = float(np.squeeze(f(x)))
    x1 = x.copy()
    it = 0
    hist = [fval]
    taken = set()
    while True:
        fx = fval; bigind = 0; delta = 0.0
        for i in range(N):
            direc1 = direc[i]
            fx2 = fval
            fval, x, direc1 = linesearch(x, direc1, xtol * 100)
            if (fx2 - fval) > delta:
                delta = fx2 - fval; bigind = i
        it += 1
        hist.append(fval)
        # the relative-improvement test compares two completed sweeps: mystic's NormalizedChangeOverGeneration(ftol, 2) needs a
        # history longer than its window, so it can first fire after the second iteration (scipy's loop may already stop after the first)
        if it >= 2 and (fx == fval or 2.0 * (fx - fval) <= ftol * (abs(fx) + abs(fval)) + 1e-20): break
        if calls[0] >= maxfun: break
        if it >= maxiter: break
        direc1 = x - x1
        x2 = 2 * x - x1
        x1 = x.copy()
        fx2 = float(np.squeeze(f(x2)))
        if fx > fx2:
            t = 2.0 * (fx + fx2 - 2.0 * fval)
            temp = (fx - fval - delta); t *= temp * temp
            temp = fx - fx2; t -= delta * temp * temp
            if t < 0.0:
                taken.add('extrapolated')
                fval, x, direc1 = linesearch(x, direc1, xtol * 100)
                direc[bigind] = direc[-1]
                direc[-1] = direc1
            else: taken.add('not_extrapolated')
        else: taken.add('not_extrapolated')
    warnflag = 0
    if calls[0] >= maxfun: warnflag = 1
    elif it >= maxiter: warnflag = 2
    return x, fval, it, calls[0], warnflag, direc, hist, taken
