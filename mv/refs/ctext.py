"""independent interpreter for mystic's constraint text: own comparator split, then eval of each
side over a {name: value} dict (numpy's elementary functions are the maths library).  Shares no
code with mystic.symbolic."""
import math, re
import numpy as np

COMPARATORS = ['<=', '>=', '!=', '==', '<', '>', '=']      # longest first
NS = {'sin': np.sin, 'cos': np.cos, 'exp': np.exp, 'sqrt': np.sqrt, 'log': np.log, 'tanh': np.tanh,
      'abs': abs, 'min': min, 'max': max, 'pi': math.pi, 'e': math.e, 'inf': math.inf, '__builtins__': {}}


def split(line):
    for c in COMPARATORS:
        k = line.find(c)
        if k >= 0:
            return line[:k].strip(), c, line[k + len(c):].strip()
    raise ValueError('no comparator in %r' % line)


def lines(text):
    return [l.strip() for l in text.strip().splitlines() if l.strip()]


def value(expr, env, extra=None):
    ns = dict(NS)
    if extra: ns.update(extra)
    return float(eval(expr, ns, dict(env)))


def tolerance(v, tol=1e-15, rel=1e-15):
    return tol + abs(v) * rel


def holds(lhs, cmp, rhs, strict_margin=0.0):
    if cmp in ('=', '=='): return lhs == rhs
    if cmp == '!=': return lhs != rhs
    if cmp == '<=': return lhs <= rhs
    if cmp == '>=': return lhs >= rhs
    if cmp == '<': return lhs < rhs
    if cmp == '>': return lhs > rhs
    raise ValueError(cmp)


def env_of(names, x):
    return dict(zip(names, x))


def satisfied(text, names, x, extra=None):
    """all lines of a text hold at x (None if some side cannot be evaluated)"""
    env = env_of(names, x)
    try:
        return all(holds(value(l, env, extra), c, value(r, env, extra)) for l, c, r in map(split, lines(text)))
    except (ZeroDivisionError, ValueError, OverflowError, FloatingPointError):
        return None


def term_scale(expr, names, x, extra=None):
    """magnitude of the terms of an expression that is affine in the variables: |f(0)| + sum |coef_k * x_k|
    (coefficients recovered by evaluating at the origin and at unit vectors); None when that evaluation fails"""
    try:
        zero = {n: 0.0 for n in names}
        f0 = value(expr, zero, extra)
        tot = abs(f0)
        for n, xv in zip(names, x):
            if n in expr:
                e = dict(zero); e[n] = 1.0
                tot += abs((value(expr, e, extra) - f0) * xv)
        return tot if math.isfinite(tot) else None
    except (ZeroDivisionError, ValueError, OverflowError, FloatingPointError, TypeError):
        return None


def holds3(lhs, cmp, rhs, eqtol=1e-8, band=1e-9, scale=None, floor=0.0):
    """three-valued: equalities hold approximately (points are constructed on the manifold up to rounding);
    inequalities within the boundary band are not judged (None).  `scale` is the magnitude of the terms involved
    (so that the verdict does not depend on how an equation happens to be scaled); default 1+|lhs|+|rhs|"""
    if not (math.isfinite(lhs) and math.isfinite(rhs)):
        return None
    scale = scale if scale else 1.0 + abs(lhs) + abs(rhs)      # term magnitude when known: the verdict must not depend on an equation's units
    if cmp in ('=', '=='):
        # three-valued as well: decidedly on the manifold (relative to the magnitude of the terms), decidedly off it, or not judged -
        # a point whose residual is merely "small" would be classed differently by a rescaled but equivalent equation
        d = abs(lhs - rhs)
        if d <= 1e-4 * eqtol * scale: return True
        if d > 1e2 * eqtol * scale + 1e3 * floor: return False
        return None
    if abs(lhs - rhs) <= band * scale + floor:
        return None
    return holds(lhs, cmp, rhs)


def satisfied3(text, names, x, extra=None):
    """conjunction over the lines: False if some line is decidedly false, None if undecidable, else True"""
    env = env_of(names, x)
    res = True
    for line in lines(text):
        l, c, r = split(line)
        try:
            sl, sr = term_scale(l, names, x, extra), term_scale(r, names, x, extra)
            sc = (sl + sr) if (sl is not None and sr is not None) else None
            # rounding floor: coordinates are only known to ~1e-12 of the largest coordinate of the point
            h = holds3(value(l, env, extra), c, value(r, env, extra), scale=sc, floor=1e-12 * (1.0 + max(abs(v) for v in x)))
        except (ZeroDivisionError, ValueError, OverflowError, FloatingPointError):
            h = None
        if h is False: return False
        if h is None: res = None
    return res
