"""independent interpreter for mystic's constraint text: own comparator split, then eval of each
side over a {name: value} dict (numpy's elementary functions are the maths library).  Shares no
code with mystic.symbolic."""
import math, re
import numpy as np

COMPARATORS = ['<=', '>=', '!=', '==', '<', '>', '=']      # longest first
NS = {'sin': np.sin, 'cos': np.cos, 'exp': np.exp, 'sqrt': np.sqrt, 'log': np.log, 'tanh': np.tanh,
      'abs': abs, 'min': min, 'max': max, 'pi': math.pi, 'e': math.e, 'inf': math.inf, '__builtins__': {}}


def split(line):
    for c in COMPARATORS:
        k = line.find(c)
        if k >= 0:
            return line[:k].strip(), c, line[k + len(c):].strip()
    raise ValueError('no comparator in %r' % line)


def lines(text):
    return [l.strip() for l in text.strip().splitlines() if l.strip()]


def value(expr, env, extra=None):
    ns = dict(NS)
    if extra: ns.update(extra)
    return float(eval(expr, ns, dict(env)))


def tolerance(v, tol=1e-15, rel=1e-15):
    return tol + abs(v) * rel


def holds(lhs, cmp, rhs, strict_margin=0.0):
    if cmp in ('=', '=='): return lhs == rhs
    if cmp == '!=': return lhs != rhs
    if cmp == '<=': return lhs <= rhs
    if cmp == '>=': return lhs >= rhs
    if cmp == '<': return lhs < rhs
    if cmp == '>': return lhs > rhs
    raise ValueError(cmp)


def env_of(names, x):
    return dict(zip(names, x))


def satisfied(text, names, x, extra=None):
    """all lines of a text hold at x (None if some side cannot be evaluated)"""
    env = env_of(names, x)
    try:
        return all(holds(value(l, env, extra), c, value(r, env, extra)) for l, c, r in map(split, lines(text)))
    except (ZeroDivisionError, ValueError, OverflowError, FloatingPointError):
        return None
