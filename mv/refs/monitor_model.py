"""list-of-records model of mystic.monitors.Monitor: records are (x, y, id) in user-level
values (cost scaling k is transparent), plus helpers for value comparison"""
import math


def plain(o):
    """numpy / tuples -> nested python lists and scalars"""
    try:
        import numpy as np
        if isinstance(o, np.ndarray):
            return plain(o.tolist())
        if isinstance(o, np.generic):
            return o.item()
    except ImportError:
        pass
    if isinstance(o, (list, tuple)):
        return [plain(v) for v in o]
    return o


def same_value(a, b, rel):
    """recursive equality; nan == nan; rel == 0 means exact incl. the sign of zero"""
    if isinstance(a, (list, tuple)) or isinstance(b, (list, tuple)):
        if not (isinstance(a, (list, tuple)) and isinstance(b, (list, tuple))) or len(a) != len(b):
            return False
        return all(same_value(x, y, rel) for x, y in zip(a, b))
    if a is None or b is None:
        return a is b
    if isinstance(a, (int, float)) and isinstance(b, (int, float)):
        fa, fb = float(a), float(b)
        if math.isnan(fa) or math.isnan(fb):
            return math.isnan(fa) and math.isnan(fb)
        if fa == fb:
            return True if rel else (math.copysign(1, fa) == math.copysign(1, fb))
        if not rel or math.isinf(fa) or math.isinf(fb):
            return False
        return abs(fa - fb) <= rel * max(abs(fa), abs(fb))
    return a == b


class Model(object):
    def __init__(self, k=None):
        self.k = k
        self.recs = []
        self.ulps = 0 if k in (None, 1) else 2

    def call(self, x, y, id=None):
        self.recs.append([x, y, id])

    def _copy(self):
        m = Model(self.k)
        m.recs = [list(r) for r in self.recs]
        m.ulps = self.ulps
        return m

    def extend(self, other):
        self.recs = self.recs + [list(r) for r in other.recs]
        self.ulps = max(self.ulps, other.ulps) + 2

    def prepend(self, other):
        self.recs = [list(r) for r in other.recs] + self.recs
        self.ulps = max(self.ulps, other.ulps) + 2

    def add(self, other):
        m = self._copy()
        m.extend(other)
        return m

    def slice(self, sl):
        m = self._copy()
        m.recs = m.recs[sl]
        return m
