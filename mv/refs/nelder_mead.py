"""Nelder-Mead downhill simplex as published (Lagarias et al. parameters; the scipy.optimize.fmin
loop structure incl. Gao-Han adaptive parameters), written independently of mystic.
Returns (xopt, fopt, iterations, funcalls, warnflag, bests) where bests is the list of
(best vertex, best value) after every iteration (index 0 = initial simplex)."""
import numpy as np


def fmin(func, x0, xtol=1e-4, ftol=1e-4, maxiter=None, maxfun=None, adaptive=False, nonzdelt=0.05, zdelt=0.00025):
    calls = [0]
    def f(x):
        calls[0] += 1
        return func(x)
    x0 = np.asarray(x0, dtype=float).flatten()
    N = len(x0)
    if adaptive:
        dim = float(N)
        rho, chi, psi, sigma = 1.0, 1 + 2 / dim, 0.75 - 1 / (2 * dim), 1 - 1 / dim
    else:
        rho, chi, psi, sigma = 1.0, 2.0, 0.5, 0.5
    if maxiter is None: maxiter = N * 200
    if maxfun is None: maxfun = N * 200
    sim = np.zeros((N + 1, N)); fsim = np.zeros(N + 1)
    sim[0] = x0; fsim[0] = f(x0)
    for k in range(N):
        y = np.array(x0, copy=True)
        y[k] = (1 + nonzdelt) * y[k] if y[k] != 0 else zdelt
        sim[k + 1] = y; fsim[k + 1] = f(y)
    ind = np.argsort(fsim); fsim = np.take(fsim, ind, 0); sim = np.take(sim, ind, 0)
    iterations = 1
    bests = [(x0.copy(), fsim.min() if False else None)]
    bests = [(sim[0].copy(), float(fsim[0]))]
    moves = set()
    while calls[0] < maxfun and iterations < maxiter:
        if np.max(np.ravel(np.abs(sim[1:] - sim[0]))) <= xtol and np.max(np.abs(fsim[0] - fsim[1:])) <= ftol:
            break
        xbar = np.add.reduce(sim[:-1], 0) / N
        xr = (1 + rho) * xbar - rho * sim[-1]
        fxr = f(xr)
        doshrink = 0
        if fxr < fsim[0]:
            xe = (1 + rho * chi) * xbar - rho * chi * sim[-1]
            fxe = f(xe)
            if fxe < fxr: sim[-1], fsim[-1] = xe, fxe; moves.add('expand')
            else: sim[-1], fsim[-1] = xr, fxr; moves.add('reflect')
        else:
            if fxr < fsim[-2]:
                sim[-1], fsim[-1] = xr, fxr; moves.add('reflect')
            else:
                if fxr < fsim[-1]:
                    xc = (1 + psi * rho) * xbar - psi * rho * sim[-1]
                    fxc = f(xc)
                    if fxc <= fxr: sim[-1], fsim[-1] = xc, fxc; moves.add('contract')
                    else: doshrink = 1
                else:
                    xcc = (1 - psi) * xbar + psi * sim[-1]
                    fxcc = f(xcc)
                    if fxcc < fsim[-1]: sim[-1], fsim[-1] = xcc, fxcc; moves.add('contract_in')
                    else: doshrink = 1
                if doshrink:
                    moves.add('shrink')
                    for j in range(1, N + 1):
                        sim[j] = sim[0] + sigma * (sim[j] - sim[0])
                        fsim[j] = f(sim[j])
        ind = np.argsort(fsim); sim = np.take(sim, ind, 0); fsim = np.take(fsim, ind, 0)
        iterations += 1
        bests.append((sim[0].copy(), float(fsim[0])))
    warnflag = 0
    if calls[0] >= maxfun: warnflag = 1
    elif iterations >= maxiter: warnflag = 2
    return sim[0], float(fsim[0]), iterations, calls[0], warnflag, bests, moves
