"""random API programs over a solver, with a harness-side ledger (C04 counters/monitors/
callbacks, C05 stopping discipline).

The harness owns: the cost (CostProbe: real call count and (x,y) log), the callback log,
the monitors it installed, every limit it set (total vs new=True with the counts at
call time), the termination object, and the moment it requested an exit.  Every public
Step() - also those made inside Solve(), which are observed by wrapping the bound
method on the instance - is bracketed: before it, the stop conditions are evaluated
independently of solver.Terminated; after it, what the Step did is measured (cost calls,
callbacks, generation advance)."""
import math, os, signal, builtins, io, contextlib
import numpy as np
from . import solverkit as K

INF = float('inf')


def lists_equal(a, b):
    return len(a) == len(b) and all(float(p) == float(q) or (p != p and q != q) for p, q in zip(a, b))


class Ledger(object):
    def __init__(self, obs, cfg, tmpdir=None):
        self.obs, self.cfg = obs, cfg
        self.tmpdir = tmpdir
        self.raw = K.make_cost(cfg['cost'])
        self.probe = K.CostProbe(self.raw)
        self.cb_log = []                 # vectors received by the callback
        self.stepped = 0                 # Steps that performed an iteration (incl. the initial evaluation)
        self.refused = 0                 # Steps that returned a stop message without iterating
        self.G = None; self.E = None     # effective limits per ledger (absolute totals), None = not set by the harness
        self.Gdef = None; self.Edef = None   # documented default limits in force where the harness gave None (absolute totals)
        self.model_defaults = False      # judge the documented defaults too (class default_limits)
        self.term = None                 # termination object installed by the harness
        self.exit_requested = False
        self.exit_at_call = None         # deliver SIGINT inside the k-th cost call from now
        self.exit_in_callback = None
        self.stop_msg = None
        self.step_records = []           # (best, bestE) after every iterating Step
        self.eval_base = 0               # probe index where the current evaluation monitor started (new=True) / 0
        self.evalmon = None; self.stepmon = None
        self.evalmon_live_since = None   # evaluation monitor swapped while the objective was live
        self.segment_start = 0           # index into energy history where the current objective started
        self.reconfigured = False
        self.last_refused = False        # the most recent Step found a stop condition at entry and did not iterate
        self.dirty = False               # reconfigured since the last iteration (reported state may be re-clipped, energies stale)
        self.iter_penalty = False
        self.solver = None
        self.in_solve = False
        self.steps_in_solve = 0
        self.after_exit_iterations = 0
        self.probe.hooks.append(self._on_cost)

    # ---------------------------------------------------------------- hooks
    def _on_cost(self, seq, x):
        if self.exit_at_call is not None:
            self.exit_at_call -= 1
            if self.exit_at_call <= 0:
                self.exit_at_call = None
                self._request_exit()

    def _request_exit(self):
        """a real SIGINT, answered with 'exit' by the patched input()"""
        self.exit_requested = True
        os.kill(os.getpid(), signal.SIGINT)

    def callback(self, x):
        self.cb_log.append([float(v) for v in np.asarray(x, dtype=float).ravel()])
        if self.exit_in_callback is not None:
            self.exit_in_callback -= 1
            if self.exit_in_callback <= 0:
                self.exit_in_callback = None
                self._request_exit()

    def eval_held(self, s):
        g, e = self.limits_hold(s)
        t = False
        if self.term is not None:
            try: t = bool(self.term(s))
            except Exception: t = False
        return {'generation_limit': g, 'evaluation_limit': e, 'termination': t, 'exit_requested': self.exit_requested}

    # ---------------------------------------------------------------- bracketed Step
    def effective_limits(self):
        G = self.G if self.G is not None else (self.Gdef if self.model_defaults else None)
        E = self.E if self.E is not None else (self.Edef if self.model_defaults else None)
        return G, E

    def limits_hold(self, s):
        gens = max(0, self.stepped - 1)
        G, E = self.effective_limits()
        g = G is not None and gens >= G
        e = E is not None and self.probe.n >= E
        return g, e

    def set_limits(self, s, G, E, new):
        """ledger side of SetEvaluationLimits: totals, or counted from now with new=True; a limit left as None is the solver's documented
        default  nDim * nPop * scale  (scale: DE 10/1000, Nelder-Mead 200/200, Powell 1000/1000 for iterations/evaluations), likewise
        counted from now with new=True"""
        gens_true, evals_true = max(0, self.stepped - 1), self.probe.n
        self.G = None if G is None else (G + (gens_true if new else 0))
        self.E = None if E is None else (E + (evals_true if new else 0))
        isc, esc = {'de': (10, 1000), 'de2': (10, 1000), 'nm': (200, 200), 'powell': (1000, 1000)}[self.cfg['solver']]
        base = self.cfg['dim'] * int(s.nPop)
        self.Gdef = base * isc + (gens_true if new else 0)
        self.Edef = base * esc + (evals_true if new else 0)
        # mystic resolves a default "counted from now" at its first termination test after the call; before the very first Step that
        # test comes after the initial evaluation, which is therefore not counted against the default
        self._def_pending = (base * isc, base * esc) if (new and self.stepped == 0) else None

    def step(self, s, real_step, **kw):
        o = self.obs
        n0, c0, st0 = self.probe.n, len(self.cb_log), self.stepped
        gens0 = s.generations
        nrec0 = len(s._stepmon)
        first = len(s._stepmon) == 0 and self.stepped == 0
        # ---- C05: independent evaluation of the stop conditions at Step entry.  Step() first (re)builds the decorated objective,
        # which may move the population (ranges installed since the last Step); mystic's own check comes right after that, so the
        # harness evaluates at the same moment: on return of the first _bootstrap_objective call inside this Step.
        self._held = None
        self._pending = not first
        msg = real_step(**kw)
        self._pending = False
        held = self._held
        iterated = (self.probe.n > n0) or (len(self.cb_log) > c0) or (s.generations > gens0)
        self.last_refused = not iterated
        if iterated:
            self.stepped += 1
            self.dirty = False
            if getattr(self, '_def_pending', None) and self.stepped == 1:
                self.Gdef, self.Edef = self._def_pending[0] + 0, self._def_pending[1] + self.probe.n
                self._def_pending = None
            sn = K.snap(s)
            self.step_records.append((sn['best'], sn['bestE']))
            if self.in_solve: self.steps_in_solve += 1
            # ---- C04 (e): exactly one callback per iteration, with the current best
            ncb = len(self.cb_log) - c0
            o.check(ncb == 1, 'c04:callback invoked exactly once per iteration', observed=ncb, step=self.stepped, solver=self.cfg['solver'])
            if ncb >= 1 and sn['best'] is not None:
                o.check(lists_equal(self.cb_log[-1], sn['best']), 'c04:callback receives the current best', got=self.cb_log[-1], best=sn['best'],
                        step=self.stepped, solver=self.cfg['solver'])
        else:
            self.refused += 1
            o.check(bool(msg), 'c05:a Step that does not iterate returns a stop message', msg=msg, solver=self.cfg['solver'])
        if held is not None and any(held.values()):
            o.event('stop_condition_held_at_entry')
            o.check(not iterated, 'c05:began an iteration while a stop condition held', held=held, solver=self.cfg['solver'],
                    generations=max(0, st0 - 1), real_calls=n0, G=self.G, E=self.E, msg=msg, nrecords_before=nrec0, mystic_maxiter=getattr(s, '_maxiter', None),
                    ops=self.cfg.get('ops_done'))
            if self.exit_requested and iterated: self.after_exit_iterations += 1
        if held is not None and not any(held.values()) and not iterated:
            # nothing the harness knows of held: the solver must have its own reason; judged through the message below
            o.event('refused_without_known_condition')
        if msg:
            self.stop_msg = msg
            self.check_message(s, msg)
        return msg

    # ---------------------------------------------------------------- stop message names a true condition
    def check_message(self, s, msg):
        o = self.obs
        gens, evals = s.generations, s.evaluations
        parts = [p for p in str(msg).split('; ') if p]
        for p in parts:
            if p.startswith('EvaluationLimits with'):
                d = eval(p.split(' with ', 1)[1], {'inf': INF, 'nan': float('nan'), 'np': np})
                reached = (d.get('evaluations') is not None and evals >= d['evaluations']) or \
                          (d.get('generations') is not None and gens >= d['generations'])
                o.check(reached, 'c05:EvaluationLimits message names a limit that is actually reached', msg=p, generations=gens, evaluations=evals,
                        solver=self.cfg['solver'])
                real = (d.get('evaluations') is not None and self.probe.n >= d['evaluations']) or \
                       (d.get('generations') is not None and max(0, self.stepped - 1) >= d['generations'])
                o.check(real, 'c05:the limit named in the message is reached by the real counts', msg=p, real_generations=max(0, self.stepped - 1),
                        real_calls=self.probe.n, solver=self.cfg['solver'], powell_finalize_records=self.cfg['solver'] == 'powell')
            elif p.startswith('SolverInterrupt'):
                o.check(self.exit_requested, 'c05:SolverInterrupt only after an exit request', msg=p)
            elif self.term is not None:
                try: now = self.term(s, info=True)
                except Exception: now = None
                if now is not None:
                    o.check(p in str(now).split('; '), 'c05:named termination condition is true of the final state', msg=p, now=now, solver=self.cfg['solver'])

    # ---------------------------------------------------------------- invariants after every API call
    def after_call(self, s, what):
        o, cfg = self.obs, self.cfg
        sn = K.snap(s)
        ctx = dict(after=what, solver=cfg['solver'], ops=cfg.get('ops_done'))
        eh = sn['ehist']
        if self.stepped and eh:
            seg = eh[self.segment_start:]
            mono = all(not (b > a) for a, b in zip(seg, seg[1:]))
            if not self.iter_penalty:
                o.check(mono, 'c04:best-energy history is non-increasing', history=seg[-6:], **ctx)
            o.check(eh[-1] == sn['bestE'] or (eh[-1] != eh[-1] and sn['bestE'] != sn['bestE']),
                    'c04:last history entry is the reported best energy', last=eh[-1], bestE=sn['bestE'], **ctx)
        o.check(sn['evals'] == self.probe.n, 'c04:evaluation counter equals the number of real cost calls', observed=sn['evals'], expected=self.probe.n,
                inf_returns=sum(1 for c in self.probe.calls if not math.isfinite(K.fnum(c[1]))),
                evalmon_kind=cfg.get('evalmon_kind'), **ctx)
        o.check(sn['gens'] == max(0, self.stepped - 1), 'c04:generation counter equals the number of completed iterations',
                observed=sn['gens'], expected=max(0, self.stepped - 1), powell=cfg['solver'] == 'powell', **ctx)
        # evaluation monitor holds exactly the (x, cost(x)) pairs in call order
        if self.evalmon is not None and cfg.get('map', 'python') == 'python':
            mon = self.evalmon
            want = self.probe.calls[self.eval_base:]
            ok = len(mon) == len(want)
            if ok:
                for (wx, wy), mx, my in zip(want[-40:], mon.x[-40:], mon.y[-40:]):
                    if not lists_equal(list(wx), [float(v) for v in np.ravel(mx)]) or not (K.fnum(my) == K.fnum(wy) or (my != my and wy != wy)):
                        ok = False; break
            o.check(ok, 'c04:evaluation monitor holds exactly the real (x, cost) pairs in call order', observed_len=len(mon), expected_len=len(want),
                    swapped_while_live=self.evalmon_live_since is not None, **ctx)

    def at_stop(self, s):
        """a stopped run: one (best x, best energy) record per generation, ending in the reported result"""
        o, cfg = self.obs, self.cfg
        mon = s._stepmon
        sn = K.snap(s)
        recs = self.step_records
        ctx = dict(solver=cfg['solver'], ops=cfg.get('ops_done'))
        o.check(len(mon) == len(recs), 'c04:step monitor of a stopped run holds one record per generation', observed=len(mon), expected=len(recs),
                powell=cfg['solver'] == 'powell', live=bool(getattr(s, '_live', None)), stopped_at_entry=self.last_refused,
                G=self.G, **ctx)
        if len(mon) and sn['best'] is not None and not self.dirty:
            o.check(lists_equal([float(v) for v in np.ravel(mon.x[-1])], sn['best']) and K.fnum(mon.y[-1]) == sn['bestE'],
                    'c04:last step-monitor record is the reported result', last=[mon.x[-1], mon.y[-1]], best=sn['best'], bestE=sn['bestE'],
                    powell=cfg['solver'] == 'powell', live=bool(getattr(s, '_live', None)), stopped_at_entry=self.last_refused,
                    nrecords=len(mon), niterations=len(recs), G=self.G, **ctx)
        if len(mon) == len(recs) and cfg['solver'] != 'powell':
            bad = [i for i, ((b, e), mx, my) in enumerate(zip(recs, mon.x, mon.y))
                   if not (K.fnum(my) == e and lists_equal([float(v) for v in np.ravel(mx)], b))]
            o.check(not bad, 'c04:record i is the (best x, best energy) after iteration i', first_bad=bad[:3], **ctx)
        elif len(mon) == len(recs) and not self.reconfigured:
            # Powell's Step boundary sits before the extrapolation test of the *same* published iteration: record i may be the
            # extrapolated improvement of the state seen after Step i, never a worse one
            ys = [K.fnum(v) for v in mon.y]
            bad = [i for i, ((b, e), my) in enumerate(zip(recs, ys)) if my > e]
            o.check(not bad, 'c04:record i is the (best x, best energy) after iteration i', first_bad=bad[:3], powell=True,
                    records=ys[:6], snapshots=[r[1] for r in recs[:6]], **ctx)


@contextlib.contextmanager
def answered_input(answer='exit'):
    old = builtins.input
    builtins.input = lambda *a, **k: answer
    try:
        yield
    finally:
        builtins.input = old


def call_limits(s, G, E, new, rng_style):
    """SetEvaluationLimits in one of its call styles: positional, the documented keywords, the backward-compatible aliases maxiter / maxfun, or a mix
    (aliases only for totals: with new=True the aliases are not documented to count from now)"""
    style = rng_style if not new else (rng_style if rng_style in ('positional', 'keywords') else 'positional')
    if style == 'keywords': return s.SetEvaluationLimits(generations=G, evaluations=E, new=new)
    if style == 'alias': return s.SetEvaluationLimits(maxiter=G, maxfun=E)
    if style == 'mixed_a': return s.SetEvaluationLimits(generations=G, maxfun=E)
    if style == 'mixed_b': return s.SetEvaluationLimits(maxiter=G, evaluations=E)
    if style == 'mixed_c': return s.SetEvaluationLimits(G, maxfun=E)
    return s.SetEvaluationLimits(G, E, new=new)


def tap_step(s, led):
    """wrap the bound Step on the instance so Steps made inside Solve() are bracketed too"""
    real = s.Step
    real_boot = s._bootstrap_objective
    def _bootstrap_objective(*a, **kw):
        r = real_boot(*a, **kw)
        if getattr(led, '_pending', False):
            led._pending = False
            led._held = led.eval_held(s)
        return r
    s._bootstrap_objective = _bootstrap_objective
    def Step(*a, **kw):
        if a:  # positional use is not part of the workload
            return real(*a, **kw)
        return led.step(s, real, **kw)
    s.Step = Step
    return real


def untap_step(s):
    for a in ('Step', '_bootstrap_objective'):
        s.__dict__.pop(a, None)


# ======================================================================= programs
def gen_term(rng, solver):
    r = rng.random()
    if r < 0.25: return ['default']
    if r < 0.4: return ['never']
    prim = []
    for _ in range(rng.choice([1, 1, 2])):
        k = rng.choice(['VTR', 'COG', 'NCOG', 'VTRCOG'] + (['CRT'] if solver != 'powell' else []))
        if k == 'VTR': prim.append([k, rng.choice([1e-3, 0.1, 5.0]), rng.choice([0.0, 1.0])])
        elif k == 'COG': prim.append([k, rng.choice([1e-8, 1e-3, 0.5]), rng.choice([1, 2, 5, 30])])
        elif k == 'NCOG': prim.append([k, rng.choice([1e-6, 1e-2]), rng.choice([1, 2, 5])])
        elif k == 'VTRCOG': prim.append([k, rng.choice([1e-3, 0.1]), rng.choice([1e-6, 1e-2]), rng.choice([2, 5, 30])])
        else: prim.append([k, rng.choice([1e-4, 1e-1, 10.0]), rng.choice([1e-4, 1e-1, 10.0])])
    if len(prim) == 1: return prim[0]
    return [rng.choice(['And', 'Or'])] + prim


def make_term(spec):
    import mystic.termination as mt
    k = spec[0]
    if k == 'default': return None
    if k == 'never': return mt.ChangeOverGeneration(-1.0, 10 ** 6)
    if k == 'VTR': return mt.VTR(spec[1], spec[2])
    if k == 'COG': return mt.ChangeOverGeneration(spec[1], spec[2])
    if k == 'NCOG': return mt.NormalizedChangeOverGeneration(spec[1], spec[2])
    if k == 'VTRCOG': return mt.VTRChangeOverGeneration(spec[1], spec[2], spec[3])
    if k == 'CRT': return mt.CandidateRelativeTolerance(spec[1], spec[2])
    if k in ('And', 'Or'): return getattr(mt, k)(*[make_term(s) for s in spec[1:]])
    raise KeyError(k)


def gen_program(rng, focus):
    cfg = K.gen_solver_cfg(rng, dims=(1, 4))
    dim = cfg['dim']
    cfg['cost'] = K.gen_cost(rng, dim, ['sphere', 'illquad', 'rosen', 'abs', 'maxnorm', 'step', 'flat'])
    cfg['stepmon_kind'] = rng.choice(['plain', 'plain', 'verbose', 'logging', 'default'])
    cfg['evalmon_kind'] = rng.choice(['plain', 'plain', 'verbose', 'logging', 'none'])
    cfg['term'] = gen_term(rng, cfg['solver'])
    ops = []
    n = rng.randint(3, 10)
    narrow = rng.random() < 0.25          # programs with narrow strict ranges (and therefore without constraint ops, which assume wide boxes)
    cfg['narrow_ranges'] = narrow
    if narrow and rng.random() < 0.6:
        ops.append(['ranges', [math.floor(v) - 1.0 for v in cfg['x0']], [math.ceil(v) + 1.0 for v in cfg['x0']]])
    def lim():
        return [rng.choice([0, 1, 2, 3, 5, 8, None]), rng.choice([0, 1, 10, 30, 80, None]), rng.random() < 0.4]
    if focus == 'c05' and rng.random() < 0.5:
        ops.append(['limits'] + lim())
    for _ in range(n):
        r = rng.random()
        if r < 0.35: ops.append(['step', rng.randint(1, 5)])
        elif r < 0.5:
            G, E, new = lim()
            if G is None and E is None: G = rng.choice([2, 5])
            ops.append(['solve', G, E, new])
        elif r < 0.58: ops.append(['limits'] + lim())
        elif r < 0.64: ops.append(['penalty', K.gen_penalty(rng, dim) if rng.random() < 0.8 else None])
        elif r < 0.70 and narrow:
            ops.append(['penalty', K.gen_penalty(rng, dim) if rng.random() < 0.8 else None])
        elif r < 0.70:
            # constraints and ranges are generated compatible with each other: boxes have integer edges beyond [-6, 6],
            # constraint targets live in [-2, 2] (pin/clamp) or are grid/integer/tie projections that keep the box
            c = None
            if rng.random() < 0.8:
                for _ in range(20):
                    c = K.gen_constraint(rng, dim)
                    if c[0] in ('pin', 'clamp', 'grid', 'ints', 'tie'): break
                else: c = ['pin', 0, 1.0]
            ops.append(['constraints', c])
        elif r < 0.75 or (narrow and r < 0.8):
            if narrow and rng.random() < 0.8:
                # a box hugging the start point: many proposals fall outside and are answered without calling the cost
                ops.append(['ranges', [math.floor(v) - rng.choice([0.0, 1.0]) for v in cfg['x0']], [math.ceil(v) + rng.choice([0.0, 1.0]) for v in cfg['x0']]])
            elif rng.random() < 0.8:
                # (one edge for all coordinates: a 'tie' constraint keeps such a box also when the run starts far outside it and is clipped onto its faces)
                lo_, hi_ = float(-rng.randint(6, 9)), float(rng.randint(6, 9))
                ops.append(['ranges', [lo_] * dim, [hi_] * dim])
            else: ops.append(['ranges', False, False])
        elif r < 0.81: ops.append(['termination', gen_term(rng, cfg['solver'])])
        elif r < 0.86: ops.append(['objective', rng.choice(['same', 'new'])])
        elif r < 0.90: ops.append(['stepmon', rng.choice(['plain', 'verbose', 'logging']), False])
        elif r < 0.94: ops.append(['evalmon', rng.choice(['plain', 'verbose', 'logging']), rng.random() < 0.3])
        elif r < 0.955: ops.append(['finalize'])
        elif r < 0.985:
            mode = rng.choice(['save', 'periodic', 'periodic', 'dill'])
            if mode == 'periodic': ops.append(['step', rng.randint(1, 3)])      # the periodic dump is the state after the last iterating Step
            ops.append(['reload', mode])
        else:
            G = rng.choice([5, 10, 20])
            ops.append(['solve_exit', G, None, rng.choice(['callback', 'cost']), rng.randint(1, 6)])
    if focus == 'c05' and rng.random() < 0.4:
        ops.append(['solve_exit', rng.choice([8, 15]), None, rng.choice(['callback', 'cost']), rng.randint(1, 12)])
    cfg['savefreq'] = rng.random() < 0.6
    cfg['ops'] = ops
    if rng.random() < 0.15: cfg['extra_args'] = [rng.choice([0.5, -1.0, 3.0])]
    cfg['monitors_by_keyword'] = rng.random() < 0.15
    cfg['limit_style'] = rng.choice(['positional', 'positional', 'keywords', 'alias', 'mixed_a', 'mixed_b', 'mixed_c'])
    return cfg


def gen_default_limits_program(rng):
    """small solvers whose DOCUMENTED default limits (nDim*nPop*scale) are reachable: limits left as None - as totals and with new=True,
    before the first Step and after some Steps - must stop the run exactly there"""
    solver = rng.choice(['de', 'de2', 'nm', 'nm', 'powell'])
    dim = 1 if solver == 'powell' else rng.randint(1, 2)
    cfg = {'solver': solver, 'dim': dim, 'x0': [round(rng.uniform(-3, 3), 2) for _ in range(dim)]}
    if solver in ('de', 'de2'):
        cfg.update(npop=rng.choice([4, 5]), strategy=rng.choice(['Best1Bin', 'Rand1Exp', 'Best1Exp']), CR=0.9, F=0.8, init='random',
                   init_lo=[v - 2.0 for v in cfg['x0']], init_hi=[v + 2.0 for v in cfg['x0']])
    cfg['cost'] = K.gen_cost(rng, dim, ['sphere', 'abs', 'step', 'illquad'])
    cfg['stepmon_kind'] = rng.choice(['plain', 'default']); cfg['evalmon_kind'] = rng.choice(['plain', 'none'])
    cfg['term'] = ['never']
    ops = []
    if rng.random() < 0.5: ops.append(['step', rng.randint(1, 6)])
    big = rng.choice([None, None, 10 ** 7])
    mode = rng.choice(['new', 'new', 'total', 'untouched'])
    if mode == 'untouched' and not ops:
        ops.append(['solve_default'])                      # Solve on a solver whose limits were never set
    elif mode == 'untouched':
        ops.append(['limits', None, big, False]); ops.append(['solve_default'])
    else:
        if rng.random() < 0.5:
            ops.append(['limits', None, big, mode == 'new']); ops.append(['solve_default'])
        else:
            ops.append(['solve', None, big, mode == 'new'])
    if rng.random() < 0.4:                                 # and once more, counted from the stop
        ops.append(['solve', None, big, True])
    cfg['ops'] = ops
    cfg['savefreq'] = False
    cfg['model_defaults'] = True
    return cfg


def make_monitor(kind, led, tag):
    from mystic.monitors import Monitor, VerboseMonitor, LoggingMonitor
    if kind in ('plain',): return Monitor()
    if kind == 'verbose': return VerboseMonitor(3, 7)
    if kind == 'logging':
        fn = os.path.join(led.tmpdir, '%s-%d.txt' % (tag, len(os.listdir(led.tmpdir))))
        return LoggingMonitor(1, filename=fn, new=True)
    return None


class Abort(Exception):
    pass


def run_program(cfg, obs, focus, tmpdir):
    led = Ledger(obs, cfg, tmpdir)
    s = K.new_solver(cfg)
    led.solver = s
    led.model_defaults = bool(cfg.get('model_defaults'))
    led.set_limits(s, None, None, False)        # nothing set yet: the documented defaults bound the totals
    K.init_points(s, cfg)
    sm = make_monitor(cfg['stepmon_kind'], led, 'step')
    em = make_monitor(cfg['evalmon_kind'], led, 'eval')
    first_kw = {}          # monitors handed over as keywords of the first Step / Solve call instead of through the Set* methods (documented equivalent)
    by_kw = bool(cfg.get('monitors_by_keyword')) and cfg['ops'] and cfg['ops'][0][0] in ('step', 'solve', 'solve_default')
    if sm is not None:
        if by_kw: first_kw['StepMonitor'] = sm
        else: s.SetGenerationMonitor(sm)
    if em is not None:
        if by_kw: first_kw['EvaluationMonitor'] = em
        else: s.SetEvaluationMonitor(em)
        led.evalmon = em
    if first_kw: obs.event('monitors_given_as_keywords_of_the_first_call')
    term = make_term(cfg['term'])
    if term is not None:
        s.SetTermination(term); led.term = term
    else:
        led.term = s._termination
    scale = [1.0]
    base = led.probe
    raw0 = led.raw
    xa = tuple(cfg['extra_args']) if cfg.get('extra_args') else None       # cost of the form cost(x, *ExtraArgs)
    def objective_factory():
        sc = scale[0]
        if xa:
            def f(x, *args, sc=sc):
                if args != xa:
                    obs.check(False, 'c04:the cost is called with the configured ExtraArgs', received=[repr(a) for a in args], configured=list(xa), solver=cfg['solver'])
                    return sc * raw0(x)
                return sc * raw0(x) + args[0]
            led.probe.f = f; led.probe.always_args = True
            return (lambda x, *args: base(x, *args))
        led.probe.f = (lambda x, sc=sc: sc * raw0(x))
        return (lambda x: base(x))
    def set_objective():
        if xa: s.SetObjective(objective_factory(), ExtraArgs=xa); obs.event('cost_with_extra_args')
        else: s.SetObjective(objective_factory())
    set_objective()
    savefile = os.path.join(tmpdir, 'periodic.pkl')
    if cfg.get('savefreq'): s.SetSaveFrequency(1, savefile)
    kw = K.step_kwargs(cfg)
    real_step = tap_step(s, led)
    done = []
    cfg['ops_done'] = done
    nreconf = 0; iters_after_reconf = 0; restarts = 0; stopped_by_limit = continued_after_stop = False
    with answered_input('exit'):
        for op in cfg['ops']:
            done.append(op)
            k = op[0]
            before = led.stepped
            if k == 'step':
                for _ in range(op[1]):
                    msg = s.Step(callback=led.callback, **dict(kw, **first_kw)); first_kw.clear()
                    led.after_call(s, 'Step')
                    if msg:
                        led.at_stop(s)
                        break
            elif k in ('solve', 'solve_exit', 'solve_default'):
                was_stopped = bool(led.stop_msg) and bool(s.Terminated())
                gens_true, evals_true = max(0, led.stepped - 1), led.probe.n
                if k != 'solve_default':           # 'solve_default': Solve under whatever limits are in force (possibly never set)
                    G, E = op[1], op[2]
                    new = op[3] if k == 'solve' else True
                    call_limits(s, G, E, new, cfg.get('limit_style', 'positional'))
                    led.set_limits(s, G, E, new)
                if k == 'solve_exit':
                    s.enable_signal_handler()
                    if op[3] == 'callback': led.exit_in_callback = op[4]
                    else: led.exit_at_call = op[4]
                led.in_solve, led.steps_in_solve = True, 0
                bound = 4
                if led.G is not None: bound += max(0, led.G - gens_true) + 1
                elif led.E is not None: bound += max(0, led.E - evals_true) + 1
                elif led.model_defaults: bound += max(0, led.Gdef - gens_true) + 1
                guard = {'n': 0}
                orig_step = s.Step
                def guarded(*a, _orig=orig_step, **kws):
                    guard['n'] += 1
                    if guard['n'] > bound + 3000:
                        raise Abort()
                    return _orig(*a, **kws)
                s.Step = guarded
                try:
                    s.Solve(callback=led.callback, **dict(kw, **first_kw)); first_kw.clear()
                    returned = True
                except Abort:
                    returned = False
                finally:
                    s.Step = orig_step
                    led.in_solve = False
                    led.exit_at_call = led.exit_in_callback = None
                if led.G is None and led.Gdef is not None:
                    # only an evaluation limit was given: iterations that evaluate nothing (every candidate rejected by the box) are
                    # bounded by the solver's documented default generation limit instead
                    bound = max(bound, int(led.Gdef) - gens_true + 4)
                obs.check(returned and guard['n'] <= bound, 'c05:Solve returns within the bounded number of Steps', steps=guard['n'], bound=bound,
                          G=led.G, E=led.E, solver=cfg['solver'], ops=done)
                if returned:
                    obs.check(bool(s.Terminated()), 'c05:after Solve returns a stop condition holds', solver=cfg['solver'], ops=done)
                led.after_call(s, 'Solve')
                led.at_stop(s)
                if k == 'solve_exit':
                    s.disable_signal_handler()
                    led.exit_requested = False
                    s._EARLYEXIT = False            # the flag is per Solve(): Solve() itself resets it on entry
                if was_stopped and led.stepped > before: continued_after_stop = True
                if led.stop_msg and 'EvaluationLimits' in str(led.stop_msg): stopped_by_limit = True
            elif k == 'limits':
                G, E, new = op[1], op[2], op[3]
                call_limits(s, G, E, new, cfg.get('limit_style', 'positional'))
                led.set_limits(s, G, E, new)
            elif k == 'penalty':
                s.SetPenalty(K.make_penalty(op[1]) if op[1] else None); nreconf += 1
                led.segment_start = len(s.energy_history); led.reconfigured = True; led.dirty = True
            elif k == 'constraints':
                s.SetConstraints(K.make_constraint(op[1]) if op[1] else None); nreconf += 1
                led.segment_start = len(s.energy_history); led.reconfigured = True; led.dirty = True
            elif k == 'ranges':
                if op[1] is False: s.SetStrictRanges(False)
                else: s.SetStrictRanges(list(op[1]), list(op[2]))
                nreconf += 1; led.segment_start = len(s.energy_history); led.reconfigured = True; led.dirty = True
            elif k == 'termination':
                t = make_term(op[1])
                if t is not None:
                    s.SetTermination(t); led.term = t
            elif k == 'objective':
                if op[1] == 'new':
                    scale[0] *= 2.0
                    set_objective(); nreconf += 1
                    led.segment_start = len(s.energy_history); led.reconfigured = True; led.dirty = True
                else:
                    s.SetObjective(None)
            elif k == 'stepmon':
                m = make_monitor(op[1], led, 'step')
                s.SetGenerationMonitor(m, new=op[2])
            elif k == 'evalmon':
                m = make_monitor(op[1], led, 'eval')
                live = bool(s._live)
                s.SetEvaluationMonitor(m, new=op[2])
                if led.evalmon is None or op[2]:
                    led.eval_base = led.probe.n
                led.evalmon = m
                if live: led.evalmon_live_since = led.probe.n
            elif k == 'finalize':
                s.Finalize()
            elif k == 'reload':
                # restart: the solver is replaced by its restored copy; every ledger invariant (counters over the solver's whole
                # life, monitors, history, records) must carry on unchanged
                import dill
                from mystic.solvers import LoadSolver
                mode = op[1]
                logging_monitors = any(type(m).__name__ == 'LoggingMonitor' for m in (s._stepmon, s._evalmon))
                if logging_monitors:
                    obs.event('reload_skipped_logging_monitor')
                else:
                    untap_step(s)
                    if mode == 'periodic' and not (cfg.get('savefreq') and led.stepped and not led.last_refused and not led.dirty and os.path.exists(savefile)
                                                   and done[-2:-1] and done[-2][0] in ('step', 'solve', 'solve_exit')):
                        mode = 'save'
                    if mode == 'periodic':
                        s2 = LoadSolver(savefile)
                    elif mode == 'save':
                        fn = os.path.join(tmpdir, 'restart-%d.pkl' % len(done))
                        s.SaveSolver(fn); s2 = LoadSolver(fn)
                        if cfg.get('savefreq'): savefile = fn      # SaveSolver(filename) registers that file as the solver's restart file: later periodic dumps go there
                    else:
                        s2 = dill.loads(dill.dumps(s))
                    op[1] = mode
                    had_evalmon = led.evalmon is not None
                    untap_step(s2)          # a periodic dump written during a tapped Step carries the harness closures: drop them
                    s = s2; led.solver = s
                    if had_evalmon: led.evalmon = s._evalmon
                    real_step = tap_step(s, led)
                    restarts += 1
                    obs.event('restarts:' + mode)
            if k not in ('step', 'solve', 'solve_exit', 'solve_default'):
                led.after_call(s, k)
            if nreconf and led.stepped > before: iters_after_reconf += led.stepped - before
    obs.event('api_calls', len(done))
    obs.event('iterations', led.stepped)
    obs.event('cost_calls', led.probe.n)
    obs.notes = {'iterations': led.stepped, 'refused_steps': led.refused, 'cost_calls': led.probe.n, 'stop': led.stop_msg,
                 'reconfigurations': nreconf, 'iterations_after_reconfiguration': iters_after_reconf}
    return led, {'nreconf': nreconf, 'iters_after_reconf': iters_after_reconf, 'stopped_by_limit': stopped_by_limit,
                 'continued_after_stop': continued_after_stop}
