"""mechanism-keyed classifier for recorded (not repaired) genuine defects.

known_findings.json is committed and never written at run time.  Each `known`
entry names a predicate below; a violation record is explained only if the
predicate recognises the *mechanism* quantitatively on that record."""
import json, os
from . import env

_PRED = {}


def predicate(f):
    _PRED[f.__name__] = f
    return f


def _load():
    p = os.path.join(env.VERIF, 'known_findings.json')
    if not os.path.exists(p):
        return []
    return json.load(open(p)).get('findings', [])


def listed(prop):
    return [f for f in _load() if f.get('status') == 'known' and f.get('property') == prop]


def classify(prop, v):
    """v = {'class','idx','desc','record'}; returns finding id or None"""
    for f in listed(prop):
        fn = _PRED.get(f.get('predicate'))
        try:
            if fn and fn(v):
                return f['id']
        except Exception:
            continue
    return None


# ------------------------------------------------------------------ predicates
@predicate
def c20_numpy_repr_parfiles(v):
    r = v['record']
    return (r.get('clause', '').startswith('parfiles:file written from numpy-valued records')
            and r.get('numpy_input') is True and r.get('error') == 'NameError'
            and "'np'" in r.get('message', '')
            and (r.get('xstyle') == 'array' or r.get('ystyle') == 'npfloat'))


@predicate
def c17_and_nonidempotent(v):
    """every member that still changes the returned vector is non-idempotent there"""
    r = v['record']
    if not r.get('clause', '').startswith('and:success implies every member leaves the result unchanged'):
        return False
    flags = r.get('violated_members_idempotent_at_result')
    return bool(flags) and not any(flags)


@predicate
def c16_impose_as_offset_drift(v):
    """idempotence failure of impose_as with a non-zero offset where twice-once is a whole multiple of the offset"""
    r, d = v['record'], v['desc']
    if not r.get('clause', '').startswith('idem:') or d.get('decorator') != 'impose_as':
        return False
    off = d.get('offset')
    if not off:
        return False
    once, twice = r.get('once'), r.get('twice')
    if not once or not twice or len(once) != len(twice):
        return False
    touched = set(i for p in d.get('pairs', []) for i in p)
    moved = False
    for i, (a, b) in enumerate(zip(once, twice)):
        if a == b:
            continue
        if i not in touched:
            return False
        q = (b - a) / off
        if abs(q - round(q)) > 1e-9 or round(q) == 0:
            return False
        moved = True
    return moved
