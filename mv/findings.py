"""mechanism-keyed classifier for recorded (not repaired) genuine defects.

known_findings.json is committed and never written at run time.  Each `known`
entry names a predicate below; a violation record is explained only if the
predicate recognises the *mechanism* quantitatively on that record."""
import json, os
from . import env

_PRED = {}


def predicate(f):
    _PRED[f.__name__] = f
    return f


def _load():
    p = os.path.join(env.VERIF, 'known_findings.json')
    if not os.path.exists(p):
        return []
    return json.load(open(p)).get('findings', [])


def listed(prop):
    return [f for f in _load() if f.get('status') == 'known' and f.get('property') == prop]


def classify(prop, v):
    """v = {'class','idx','desc','record'}; returns finding id or None"""
    for f in listed(prop):
        fn = _PRED.get(f.get('predicate'))
        try:
            if fn and fn(v):
                return f['id']
        except Exception:
            continue
    return None


# ------------------------------------------------------------------ predicates
@predicate
def c20_numpy_repr_parfiles(v):
    r = v['record']
    return (r.get('clause', '').startswith('parfiles:file written from numpy-valued records')
            and r.get('numpy_input') is True and r.get('error') == 'NameError'
            and "'np'" in r.get('message', '')
            and (r.get('xstyle') == 'array' or r.get('ystyle') == 'npfloat'))


@predicate
def c17_and_nonidempotent(v):
    """every member that still changes the returned vector is non-idempotent there"""
    r = v['record']
    if not r.get('clause', '').startswith('and:success implies every member leaves the result unchanged'):
        return False
    flags = r.get('violated_members_idempotent_at_result')
    return bool(flags) and not any(flags)


@predicate
def c16_impose_as_offset_drift(v):
    """idempotence failure of impose_as with a non-zero offset where twice-once is a whole multiple of the offset"""
    r, d = v['record'], v['desc']
    if not r.get('clause', '').startswith('idem:') or d.get('decorator') != 'impose_as':
        return False
    off = d.get('offset')
    if not off:
        return False
    once, twice = r.get('once'), r.get('twice')
    if not once or not twice or len(once) != len(twice):
        return False
    touched = set(i for p in d.get('pairs', []) for i in p)
    moved = False
    for i, (a, b) in enumerate(zip(once, twice)):
        if a == b:
            continue
        if i not in touched:
            return False
        q = (b - a) / off
        if abs(q - round(q)) > 1e-9 or round(q) == 0:
            return False
        moved = True
    return moved


@predicate
def c01_additive_reducer_penalty(v):
    """observed - expected == (n-1) * penalty at the point, for the additive reducer only"""
    r = v['record']
    if not r.get('clause', '').startswith(('c01:reported best energy equals', 'c01:stored member energy equals')):
        return False
    if r.get('reducer') != 'sum' or r.get('pen') is None:
        return False
    n, p, obs_, exp = r.get('n_components'), r.get('penalty_at_best'), r.get('observed'), r.get('expected')
    if None in (n, p, obs_, exp) or n < 2 or not p:
        return False
    try:
        return abs((obs_ - exp) - (n - 1) * p) <= 1e-9 * max(1.0, abs(obs_), abs(exp))
    except TypeError:
        return False


@predicate
def c02_symbolic_bounds_no_usable_side(v):
    r = v['record']
    return (r.get('clause', '').startswith('c02:SetStrictRanges raised while building the bounds constraint')
            and r.get('error') == 'ZeroDivisionError' and r.get('in_symbolic') is True and r.get('usable_sides') == 0
            and (r.get('mode') or [None])[0] is True and (r.get('mode') or [None, None])[1] is None)


@predicate
def c06_deepcopy_live_detached(v):
    r = v['record']
    c = r.get('clause', '')
    if r.get('how') != 'deepcopy' or not r.get('live_at_copy'):
        return False
    if c.startswith('indep:the copy keeps counting its own evaluations'):
        return r.get('counted') == 0 and (r.get('real') or 0) > 0
    if c.startswith("indep:the copy's evaluation monitor keeps recording"):
        return r.get('recorded') == 0 and (r.get('real') or 0) > 0
    return False


@predicate
def c07_tight_ranges_consume_rng(v):
    r = v['record']
    return (r.get('clause', '').startswith('perm:same trajectory') and r.get('tight') is True and r.get('ranges_before_init') is True
            and r.get('random_init') is True and r.get('first_differing_step') == 0 and r.get('field') == 'pop')


@predicate
def c11_pin_and_tie_not_fixed_point(v):
    """every violated group mixes pinned members with tied members (pure pins and pure ties must hold)"""
    r = v['record']
    if not r.get('clause', '').startswith(('solver:every point evaluated after a collapse', 'solver:the final solution satisfies')):
        return False
    first = r.get('first') or []
    groups = [g for f in first for g in f.get('groups', [])]
    return bool(groups) and all(len(g.get('group', [])) >= 2 and g.get('pinned') for g in groups)


@predicate
def c11_tie_chain_across_collapses(v):
    """every violated group is pin-free and its ties were applied by at least two different Collapse() calls
    (ties applied by ONE collapse must hold: impose_as ties the connected group as a whole)"""
    r = v['record']
    if not r.get('clause', '').startswith(('solver:every point evaluated after a collapse', 'solver:the final solution satisfies')):
        return False
    groups = [g for f in (r.get('first') or []) for g in f.get('groups', [])]
    return bool(groups) and all(len(g.get('group', [])) >= 3 and not g.get('pinned') and len(g.get('tie_collapse_calls') or []) >= 2 for g in groups)


@predicate
def c11_collapse_at_final_stop(v):
    r = v['record']
    return (r.get('clause', '').startswith('solver:the final solution satisfies') and r.get('calls_after_last_collapse') == 0
            and 'EvaluationLimits' in str(r.get('stop')))


@predicate
def c11_de_best_predates_collapse(v):
    r = v['record']
    return (r.get('clause', '').startswith('solver:the final solution satisfies') and r.get('solver') in ('de', 'de2')
            and r.get('best_unchanged_since_a_collapse') is True)


def _c13_outside_explained(r):
    """-> (all outside coordinates explained, #degenerate, #rounded)"""
    out = r.get('outside') or []
    deg = set(r.get('degenerate_sides') or [])
    flags = r.get('outside_is_bound_rounded_to_15_digits') or [False] * len(out)
    nd = sum(1 for k in out if k in deg)
    nr = sum(1 for k, f in zip(out, flags) if f and k not in deg)
    return bool(out) and nd + nr == len(out), nd, nr


@predicate
def c13_symbolic_bounds_degenerate_side(v):
    r = v['record']
    if not (r.get('clause', '').startswith('bounds:the bounds constraint clips into the box') and r.get('symbolic') is True):
        return False
    ok, nd, nr = _c13_outside_explained(r)
    return ok and nd >= 1


@predicate
def c13_symbolic_bounds_no_usable_side(v):
    r = v['record']
    return (r.get('clause', '').startswith('bounds:building the bounds constraint raised') and r.get('symbolic') is True
            and r.get('error') == 'ZeroDivisionError' and r.get('usable_sides') == 0)


@predicate
def c13_named_variable_substring(v):
    r = v['record']
    return r.get('clause', '').startswith('rel:named variables are substituted as whole names') and bool(r.get('names_inside_function_name'))


@predicate
def c13_symbolic_bounds_rounded(v):
    r = v['record']
    if r.get('symbolic') is not True: return False
    if r.get('clause', '').startswith('bounds:the bounds constraint is the identity inside the box'):
        # same mechanism seen from inside: a point sitting exactly ON a bound that needs more than 15 digits is moved to the 15-digit rounding of that bound
        x, y, lo, hi = r.get('x'), r.get('y'), r.get('lo'), r.get('hi')
        if not (x and y and lo and hi and len(x) == len(y) == len(lo) == len(hi)): return False
        moved = [j for j in range(len(x)) if y[j] != x[j]]
        def rounded_bound(j):
            for b in (lo[j], hi[j]):
                if isinstance(b, (int, float)) and b == b and abs(b) != float('inf') and x[j] == b and float('%.15g' % b) != b and y[j] == float('%.15g' % b): return True
            return False
        return bool(moved) and all(rounded_bound(j) for j in moved)
    if not r.get('clause', '').startswith('bounds:the bounds constraint clips into the box'):
        return False
    ok, nd, nr = _c13_outside_explained(r)
    return ok and nr >= 1


@predicate
def c12_product_vs_zero(v):
    r = v['record']
    return r.get('clause', '').startswith('same:') and r.get('hostile') == 'zero_rhs' and r.get('single_case') is True


@predicate
def c12_contradictory_strict_pair(v):
    r = v['record']
    if not r.get('clause', '').startswith('same:'):
        return False
    # the input holds nowhere among the witnesses (it is contradictory) while the rewritten system does
    w = r.get('witnesses') or []
    if not w or not all(x.get('input_holds') is False for x in w):
        return False
    # the input holds a pair of lines that bound one (scaled) expression from incompatible sides BY CONSTRUCTION
    # (A<c with A>c -> 'A != c';  A>c with A<=c -> both dropped; with a third line on the same expression either may show)
    # the recorded mechanism, quantitatively: a strict pair shows as a '!=' line; a complement pair vanishes without leaving an equality behind
    eq_in, eq_out = r.get('equalities_in'), r.get('equalities_out') or []
    if r.get('hostile') == 'contradiction' or r.get('mirrored_pair') == 'contradictory_strict':
        if r.get('merged_to_not_equal') is True: return True
        # a text labelled by its strict pair may hold an identically spelled complement pair as well (A <= c with A > c): then the complement signature shows
        return (r.get('mirrored_pair') == 'contradictory_strict' and r.get('merged_to_not_equal') is False and all(n == (eq_in or 0) for n in eq_out)
                and _has_identical_complement_pair(r.get('text') or ''))
    if r.get('mirrored_pair') == 'contradictory_complement':
        if r.get('merged_to_not_equal') is False and all(n == (eq_in or 0) for n in eq_out): return True
        # the same text may also hold a pinch (E <= c with -E <= -c), which legitimately becomes ONE equality: then exactly one more equality comes out
        if r.get('merged_to_not_equal') is False and all(n == (eq_in or 0) + 1 for n in eq_out) and _has_pinch_pair(r.get('text') or ''): return True
        # a text may hold a strict pair as well (A < c with A > c, spelled identically, next to the complement pair): then the strict signature shows
        return r.get('merged_to_not_equal') is True and _has_identical_strict_pair(r.get('text') or '')
    return False


def _linear_line(line):
    import re
    for cmp in (' <= ', ' >= '):
        if cmp in line:
            l, r_ = line.split(cmp, 1)
            try: c = float(r_)
            except ValueError: return None
            terms = {}
            for t in l.split(' + '):
                m = re.fullmatch(r'\s*(-?[0-9.eE+-]+)\*([A-Za-z_][A-Za-z_0-9]*)\s*', t)
                if not m: return None
                terms[m.group(2)] = terms.get(m.group(2), 0.0) + float(m.group(1))
            sgn = 1.0 if cmp.strip() == '<=' else -1.0          # normalise to  E <= c
            return ({k: sgn * v for k, v in terms.items()}, sgn * c)
    return None


def _has_pinch_pair(text):
    rows = [x for x in map(_linear_line, text.splitlines()) if x]
    for i in range(len(rows)):
        for j in range(i + 1, len(rows)):
            (a, c), (b, d) = rows[i], rows[j]
            if set(a) == set(b) and all(abs(a[k] + b[k]) <= 1e-12 * max(1.0, abs(a[k])) for k in a) and abs(c + d) <= 1e-12 * max(1.0, abs(c)) and any(a.values()):
                return True
    return False


def _has_identical_complement_pair(text):
    seen = {}
    for line in text.splitlines():
        for cmp in (' <= ', ' >= ', ' < ', ' > '):
            if cmp in line:
                l, r_ = line.split(cmp, 1)
                seen.setdefault((l.strip(), r_.strip()), set()).add(cmp.strip())
                break
    return any({'<=', '>'} <= v or {'>=', '<'} <= v for v in seen.values())


def _has_identical_strict_pair(text):
    seen = {}
    for line in text.splitlines():
        for cmp in (' < ', ' > '):
            if cmp in line and ' <= ' not in line and ' >= ' not in line:
                l, r_ = line.split(cmp, 1)
                seen.setdefault((l.strip(), r_.strip()), set()).add(cmp.strip())
    return any(v == {'<', '>'} for v in seen.values())


@predicate
def c04_de2_inf_cost_undercount(v):
    r, d = v['record'], v['desc']
    return (r.get('clause', '').startswith('c04:evaluation counter equals the number of real cost calls') and r.get('solver') == 'de2'
            and r.get('evalmon_kind') == 'none' and (r.get('inf_returns') or 0) > 0
            and r.get('expected') - r.get('observed') == r.get('inf_returns'))


@predicate
def c03_powell_history_unconstrained_record(v):
    r = v['record']
    bad = r.get('bad_records') or []
    return (r.get('clause', '').startswith('c03:every solution recorded in the history') and r.get('solver') == 'powell'
            and bool(bad) and min(bad) >= 1)      # record 0 is the constrained start; the reported solution is judged by its own clause


@predicate
def c12_pinch_pair_equality_dropped(v):
    r = v['record']
    w = r.get('witnesses') or []
    return (r.get('clause', '').startswith('same:') and r.get('mirrored_pair') == 'pinch' and bool(w)
            and all(x.get('input_holds') is False for x in w)
            and all(n <= (r.get('equalities_in') or 0) for n in (r.get('equalities_out') or [])))


@predicate
def c12_vacuous_false_equality_dropped(v):
    """the input has an equality whose variables cancel to a false constant relation, it holds nowhere, and the output has lost an equality"""
    r = v['record']
    w = r.get('witnesses') or []
    return (r.get('clause', '').startswith('same:') and (r.get('vacuous_false_equalities') or 0) >= 1 and bool(w)
            and all(x.get('input_holds') is False for x in w)
            and all(n < (r.get('equalities_in') or 0) for n in (r.get('equalities_out') or [])))


@predicate
def c12_solve_rounding_residue_pivot(v):
    """solve divided by a rounding residue: the solved form carries a coefficient >= 1e10 although every input number is small"""
    r = v['record']
    return (r.get('clause', '').startswith('same:') and r.get('solve') is True and (r.get('max_number_in_result') or 0) >= 1e10
            and (r.get('max_number_in_input') or 1e99) <= 1e3)


@predicate
def c12_zero_divisor_case_dropped(v):
    """every witness satisfies the input, satisfies no returned case, and sits exactly on the zero of a variable the cases divide by"""
    import re
    r = v['record']
    if not r.get('clause', '').startswith('same:') or not r.get('exact_arithmetic'):
        return False
    w = r.get('witnesses') or []
    cases = r.get('cases') or []
    if not w or len(cases) < 2:
        return False
    variables = (v.get('desc') or {}).get('variables')
    for x in w:
        pt = x.get('x') or []
        names = variables if isinstance(variables, list) else ['%s%d' % (variables or 'x', i) for i in range(len(pt))]
        divisors = set(m for c in cases for m in re.findall(r'/\s*\(?\s*([A-Za-z_][A-Za-z_0-9]*)', c))
        zero_div = [n for n, val in zip(names, pt) if n in divisors and val == 0]
        if not (x.get('input_holds') is True and not any(x.get('cases_hold') or [True]) and zero_div):
            return False
    return True


@predicate
def c09_nested_instance_counts_rejected_candidates(v):
    """members copied from a configured nested INSTANCE count the calls of the ensemble-decorated cost, i.e. also the candidates the ensemble's ranges answer
    with inf without calling the user's cost: the total exceeds the number of real cost calls (never falls short of it)"""
    r = v['record']
    return (r.get('clause', '').startswith('ens:total evaluation count equals the number of real cost calls') and r.get('nested_given_as_configured_instance') is True
            and r.get('ranges_in_force') is True and isinstance(r.get('total'), int) and isinstance(r.get('real'), int) and r['total'] > r['real'])

