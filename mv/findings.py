"""mechanism-keyed classifier for recorded (not repaired) genuine defects.

known_findings.json is committed and never written at run time.  Each `known`
entry names a predicate below; a violation record is explained only if the
predicate recognises the *mechanism* quantitatively on that record."""
import json, os
from . import env

_PRED = {}


def predicate(f):
    _PRED[f.__name__] = f
    return f


def _load():
    p = os.path.join(env.VERIF, 'known_findings.json')
    if not os.path.exists(p):
        return []
    return json.load(open(p)).get('findings', [])


def listed(prop):
    return [f for f in _load() if f.get('status') == 'known' and f.get('property') == prop]


def classify(prop, v):
    """v = {'class','idx','desc','record'}; returns finding id or None"""
    for f in listed(prop):
        fn = _PRED.get(f.get('predicate'))
        try:
            if fn and fn(v):
                return f['id']
        except Exception:
            continue
    return None


# ------------------------------------------------------------------ predicates
@predicate
def c20_numpy_repr_parfiles(v):
    r = v['record']
    return (r.get('clause', '').startswith('parfiles:file written from numpy-valued records')
            and r.get('numpy_input') is True and r.get('error') == 'NameError'
            and "'np'" in r.get('message', '')
            and (r.get('xstyle') == 'array' or r.get('ystyle') == 'npfloat'))
