"""one monitored solver run shared by C01 / C02 / C03.

The harness owns the cost (CostProbe), its own copies of constraint / penalty / reducer
and a ledger of what has been installed when; in-call hooks judge every evaluation,
step-boundary checks judge the reported state after every public Step()."""
import math
import numpy as np
from . import solverkit as K

INF = float('inf')
REDUCERS = {'sum': lambda a: float(np.sum(a)), 'max': lambda a: float(np.max(a)), 'mean': lambda a: float(np.mean(a)),
            'min': lambda a: float(np.min(a)), 'prod': lambda a: float(np.prod(a)), 'sumsq': lambda a: float(np.sum(np.asarray(a) ** 2))}
MYSTIC_REDUCERS = {'sum': np.sum, 'max': np.max, 'mean': np.mean, 'min': np.min, 'prod': np.prod, 'sumsq': (lambda a: np.sum(np.asarray(a) ** 2))}


def feq(a, b, rel):
    if a == b: return True
    if a is None or b is None: return False
    if math.isnan(a) or math.isnan(b): return False
    if math.isinf(a) or math.isinf(b): return False
    # builtin sum() is compensated for python floats but not for the numpy scalars mystic passes around, so values formed by
    # cancellation (a.x - b near 0) may differ in their last bits: allow 1e-14 absolute on top of the relative tolerance
    return abs(a - b) <= rel * max(abs(a), abs(b)) + 1e-14


def gen_cfg(rng, focus, solvers=('nm', 'powell', 'de', 'de2')):
    cfg = K.gen_solver_cfg(rng, solvers, dims=(1, 5))
    dim = cfg['dim']
    cfg['cost'] = K.gen_cost(rng, dim)
    cfg['steps'] = rng.randint(4, 18) if cfg['solver'] != 'powell' else rng.randint(3, 7)
    # ---- box
    p_box = {'c01': 0.5, 'c02': 1.0, 'c03': 0.4}[focus]
    if rng.random() < p_box:
        box = K.gen_box(rng, dim, cfg['x0'])
        mode = rng.choice([(None, None), (None, None), (True, None), (False, None), (True, True), (None, True)] +
                          ([(True, False), (None, False)] if focus == 'c02' else []))
        box['tight'], box['clip'] = mode
        if focus != 'c02' and (mode[0] or mode[1] is not None) and box['shape'] in ('degenerate', 'infinite'):
            # symbolic bounds of a box without a usable finite side are C02/C13 material, not C01/C03's
            box = K.gen_box(rng, dim, cfg['x0'], shape='finite'); box['tight'], box['clip'] = mode
        box['when'] = 0
        if focus == 'c02':
            box['when'] = rng.choice([0, 0, 0, 1, 2, 3])
            if rng.random() < 0.3:
                nb = K.gen_box(rng, dim, cfg['x0'], shape=rng.choice(['finite', 'finite', 'onesided']))
                box['change'] = {'at': box['when'] + rng.randint(1, 4), 'lo': nb['lo'], 'hi': nb['hi'],
                                 'remove_first': rng.random() < 0.3}
            if rng.random() < 0.2:
                box['reject_at'] = max(1, box['when']) + rng.randint(0, 3); box['after_reject'] = rng.choice(['evalmon', 'finalize', 'penalty', 'none'])
            box['none_entries'] = rng.random() < 0.15
            if rng.random() < 0.25 and box['shape'] == 'finite':
                # bounds given as python ints (whole-number box); a later change to fractional bounds must be taken as given
                box['lo'] = [float(math.floor(v)) for v in box['lo']]; box['hi'] = [float(math.ceil(v)) + (1.0 if math.ceil(v) == math.floor(l) else 0.0) for v, l in zip(box['hi'], box['lo'])]
                box['int_typed'] = True
        cfg['box'] = box
        if cfg['solver'] in ('de', 'de2') and cfg.get('init') == 'random' and rng.random() < 0.6:
            # start inside the box (finite sides), else keep the default neighbourhood of x0 (possibly outside)
            cfg['init_lo'] = [lo if math.isfinite(lo) else -5.0 for lo in box['lo']]
            cfg['init_hi'] = [hi if math.isfinite(hi) else 5.0 for hi in box['hi']]
    # ---- constraints
    p_con = {'c01': 0.5, 'c02': 0.5, 'c03': 1.0}[focus]
    if rng.random() < p_con:
        box = cfg.get('box')
        if focus == 'c02' and rng.random() < 0.4:
            i = rng.randrange(dim)
            far = (box['hi'][i] if math.isfinite(box['hi'][i]) else 50.0) + rng.choice([1.0, 30.0])
            spec = ['pushout', i, far]             # hostile: pushes every point out of the box
        else:
            spec = K.gen_constraint(rng, dim, box if box else None)
        cfg['cons'] = {'spec': spec, 'inplace': rng.random() < 0.5, 'when': 0}
        if focus == 'c03' and rng.random() < 0.25:
            cfg['cons']['when'] = rng.randint(1, 3)
    # ---- penalty / reducer
    if rng.random() < {'c01': 0.5, 'c02': 0.15, 'c03': 0.3}[focus]:
        cfg['pen'] = K.gen_penalty(rng, dim)
    if (focus == 'c01' and rng.random() < 0.2) or (focus == 'c02' and rng.random() < 0.15):
        cfg['cost'] = ['array', [round(rng.uniform(-2, 2), 2) for _ in range(dim)]]
        cfg['reducer'] = rng.choice(['sum', 'max', 'mean', 'min', 'prod'])
        cfg['reducer_arraylike'] = rng.random() < 0.5 or cfg['reducer'] == 'mean'
        if rng.random() < 0.25:       # a reducer that is not the identity on a single component, also on a cost with exactly one component
            cfg['reducer'] = 'sumsq'; cfg['reducer_arraylike'] = True
            if rng.random() < 0.6: cfg['cost'] = ['array1', cfg['cost'][1]]
        if cfg['reducer'] in ('prod', 'sumsq'): cfg.pop('pen', None)      # (a penalty is added to the components before they are reduced: only reducers that commute with a shift are combined with one)
    if focus in ('c01', 'c03') and not cfg.get('reducer') and rng.random() < 0.15:
        cfg['extra_args'] = [rng.choice([0.0, 1.5, -2.0]), rng.choice([1.0, 2.0, 0.5])]
        cfg['extra_args_by_keyword'] = rng.random() < 0.5
    # ---- channel: configuration through Set* methods, or through the keywords of the Step call at which it takes effect
    cfg['channel'] = rng.choice(['set', 'set', 'step_kw'])
    # ---- stop
    if rng.random() < 0.35:
        cfg['limits'] = [rng.choice([0, 1, 2, 3, 5, None]), rng.choice([1, 5, 20, 60, None])]
    return cfg


class Run(object):
    def __init__(self, cfg, obs, focus):
        self.cfg, self.obs, self.focus = cfg, obs, focus
        self.raw = K.make_cost(cfg['cost'])
        self.probe = K.CostProbe(self.raw)
        if cfg.get('extra_args'):
            # a cost of the form cost(x, *ExtraArgs): the user's function is scale*f(x) + shift and must be handed exactly the configured arguments on every call
            raw0, want = self.raw, tuple(cfg['extra_args'])
            run = self
            def with_args(x, *args):
                if args != want:
                    run.obs.check(False, 'c01:the cost is called with the configured ExtraArgs', received=[repr(a) for a in args], configured=list(want), solver=cfg['solver'])
                    return raw0(x)
                return args[1] * raw0(x) + args[0]
            self.probe.f = with_args
            self.probe.always_args = True
            self.raw = lambda x: want[1] * raw0(x) + want[0]
        self.seen = set()
        self.box = None              # active box per ledger
        self.cons = None             # active reference constraint per ledger
        self.cons_spec = None
        self.refpen = K.ref_penalty(cfg.get('pen'))
        self.red = REDUCERS.get(cfg.get('reducer'))
        self.altered = 0             # proposals changed by the constraint (measured through its wrapper)
        self.rejected = 0
        self.box_from_start = self.cons_from_start = False
        self.probe.hooks.append(self.on_call)
        self.ncalls_box = self.ncalls_cons = 0
        self.stale = False           # energies computed under an older configuration

    # ---- in-call monitor (exact argument in hand)
    def on_call(self, seq, x):
        self.seen.add(tuple(x))
        o = self.obs
        if self.box is not None:
            self.ncalls_box += 1
            ok = K.in_box(x, self.box)
            o.check(ok, 'c02:cost evaluated outside the strict ranges', seq=seq, x=x, lo=self.box['lo'], hi=self.box['hi'],
                    solver=self.cfg['solver'], mode=[self.box.get('tight'), self.box.get('clip')])
        if self.cons is not None and self.focus == 'c03':
            self.ncalls_cons += 1
            cx = self.cons(x)
            o.check(cx == x, 'c03:cost evaluated at a point violating the constraints', seq=seq, x=x, cx=cx,
                    cons=self.cons_spec, solver=self.cfg['solver'])

    def F(self, x):
        y = self.raw(x)
        if self.red: y = self.red(y)
        return float(y) + self.refpen(x)

    def obj(self, m):
        """objective the solver minimises at stored member m (after constraints and bounds)"""
        cm = self.cons(m) if self.cons else list(m)
        if self.box is not None and not K.in_box(cm, self.box):
            return INF
        return self.F(cm)

    # ---- configuration through the public API, mirrored in the ledger
    def install_box(self, s, lo, hi, tight, clip, none_entries=False, int_typed=False):
        alo, ahi = list(lo), list(hi)
        if int_typed:
            alo = [int(v) if (math.isfinite(v) and v == int(v)) else v for v in alo]; ahi = [int(v) if (math.isfinite(v) and v == int(v)) else v for v in ahi]
        if none_entries:
            alo = [None if (i % 2 == 0) else v for i, v in enumerate(alo)]
        kw = {}
        if tight is not None: kw['tight'] = tight
        if clip is not None: kw['clip'] = clip
        s.SetStrictRanges(alo, ahi, **kw)
        self.box_call = (list(alo), list(ahi), dict(kw))
        lo2 = [(-1e3 if a is None else float(a)) for a in alo]
        self.box = {'lo': lo2, 'hi': [float(v) for v in ahi], 'tight': tight, 'clip': clip}
        self.stale = True

    def install_cons(self, s, spec, inplace, pending=None):
        real = K.make_constraint(spec, inplace=inplace)
        run = self
        def counted(x):
            before = [float(v) for v in x]
            out = real(x)
            if [float(v) for v in out] != before: run.altered += 1
            return out
        if pending is None: s.SetConstraints(counted)
        else: pending['constraints'] = counted              # handed to the next Step call as a keyword
        self.cons = K.ref_constraint(spec)
        self.cons_spec = spec
        self.stale = True

    def go(self):
        from mystic.termination import ChangeOverGeneration
        cfg, o = self.cfg, self.obs
        s = K.new_solver(cfg)
        K.init_points(s, cfg)
        lim = cfg.get('limits')
        if lim: s.SetEvaluationLimits(lim[0], lim[1])
        else: s.SetEvaluationLimits(10 ** 6, 10 ** 8)
        s.SetTermination(ChangeOverGeneration(-1.0, 10 ** 6))       # never satisfied: runs are bounded by Step count / limits
        box, cons = cfg.get('box'), cfg.get('cons')
        bykw = cfg.get('channel') == 'step_kw'
        pending = {}                                            # keywords for the next Step call (channel 'step_kw')
        if cfg.get('pen') is not None:
            if bykw: pending['penalty'] = K.make_penalty(cfg['pen'])
            else: s.SetPenalty(K.make_penalty(cfg['pen']))
        if cfg.get('reducer'):
            if cfg.get('reducer_arraylike', True): s.SetReducer(MYSTIC_REDUCERS[cfg['reducer']], arraylike=True)
            else: s.SetReducer({'sum': lambda a, b: a + b, 'max': max, 'min': min, 'prod': (lambda a, b: a * b), 'mean': None}.get(cfg['reducer']) or (lambda a, b: a + b), arraylike=False)
        if cfg.get('reducer') == 'mean' and not cfg.get('reducer_arraylike', True):
            self.red = REDUCERS['sum']
        if box and box['when'] == 0:
            self.install_box(s, box['lo'], box['hi'], box['tight'], box['clip'], box.get('none_entries', False), box.get('int_typed', False))
            self.box_from_start = True
        if cons and cons['when'] == 0:
            self.install_cons(s, cons['spec'], cons['inplace'], pending if bykw else None)
            self.cons_from_start = True
        xa = cfg.get('extra_args')
        if bykw:
            pending['cost'] = self.probe
            if xa: pending['ExtraArgs'] = tuple(xa)
        elif xa: s.SetObjective(self.probe, ExtraArgs=tuple(xa)) if cfg.get('extra_args_by_keyword', True) else s.SetObjective(self.probe, tuple(xa))
        else: s.SetObjective(self.probe)
        if xa: o.event('cost_with_extra_args')
        self.stale = False
        kw = K.step_kwargs(cfg)
        gen0 = None
        nbest_changes = 0
        last_best = None
        snaps = 0
        msg = None
        for step in range(cfg['steps']):
            if box and box['when'] == step and step > 0:
                self.install_box(s, box['lo'], box['hi'], box['tight'], box['clip'], box.get('none_entries', False), box.get('int_typed', False))
            if box and box.get('change') and box['change']['at'] == step:
                ch = box['change']
                if ch.get('remove_first'):
                    s.SetStrictRanges(False)
                    self.box = None
                self.install_box(s, ch['lo'], ch['hi'], box['tight'], box['clip'])
            if cons and cons['when'] == step and step > 0:
                self.install_cons(s, cons['spec'], cons['inplace'], pending if bykw else None)
            if box and box.get('reject_at') == step and self.box is not None and getattr(self, 'box_call', None):
                # a change of the ranges that the solver REJECTS (min > max, or a wrong length): the ranges that were set stay in force,
                # also after the objective is next re-built
                alo, ahi, bkw = self.box_call
                swap = any(a is not None and a < b for a, b in zip(alo, ahi))
                bad = (list(ahi), [(-1e3 if a is None else a) for a in alo]) if swap else (list(alo) + [0.0], list(ahi) + [1.0])
                try:
                    s.SetStrictRanges(bad[0], bad[1], **bkw)
                except ValueError:
                    o.event('rejected_range_changes')
                    how = box.get('after_reject')
                    if how == 'evalmon':
                        from mystic.monitors import Monitor
                        s.SetEvaluationMonitor(Monitor())
                    elif how == 'finalize': s.Finalize()
                    elif how == 'penalty': s.SetPenalty(K.make_penalty(cfg['pen']) if cfg.get('pen') is not None else None)
                else:
                    o.event('range_change_expected_to_be_rejected_was_accepted'); self.box = None
            ncalls_before = self.probe.n
            if pending:
                o.event('configured_by_step_keywords')
                msg = s.Step(**dict(kw, **pending)); pending = {}
            else:
                msg = s.Step(**kw)
            sn = K.snap(s)
            snaps += 1
            o.event('step_boundaries')
            self.boundary(s, sn, step, msg)
            if gen0 is None and sn['bestE'] is not None:
                gen0 = sn['bestE']
            if sn['best'] != last_best:
                nbest_changes += 1; last_best = sn['best']
            if self.focus == 'c01' and not self.stale and gen0 is not None and sn['bestE'] is not None:
                o.check(not (sn['bestE'] > gen0), 'c01:best is never worse than the energy of the initial guess', step=step,
                        bestE=sn['bestE'], gen0=gen0, solver=cfg['solver'])
            if msg:
                break
        if self.focus == 'c03' and self.cons_from_start and self.cons is not None:
            # the recorded solution history of the run: every recorded best satisfies the constraints
            hist = [[float(v) for v in np.ravel(x)] for x in s.solution_history]
            ehist = [K.fnum(e) for e in s.energy_history]
            bad = [i for i, x in enumerate(hist) if self.cons(x) != x and i < len(ehist) and math.isfinite(ehist[i])]
            o.check(not bad, 'c03:every solution recorded in the history satisfies the constraints', solver=cfg['solver'], cons=self.cons_spec,
                    bad_records=bad[:5], nrecords=len(hist), first_bad=hist[bad[0]] if bad else None,
                    final_record_ok=(not hist) or self.cons(hist[-1]) == hist[-1] or not math.isfinite(ehist[-1]),
                    mode=None if self.box is None else [self.box.get('tight'), self.box.get('clip')])
        o.event('cost_calls', self.probe.n)
        o.event('constraint_altered', self.altered)
        o.notes = {'steps_run': snaps, 'cost_calls': self.probe.n, 'stop': msg, 'best_changes': nbest_changes,
                   'altered_by_constraint': self.altered, 'bestE': sn['bestE']}
        return s, nbest_changes, snaps

    # ---- step-boundary monitor
    def boundary(self, s, sn, step, msg):
        o, cfg, focus = self.obs, self.cfg, self.focus
        best, bestE = sn['best'], sn['bestE']
        finite = bestE is not None and math.isfinite(bestE)
        rel = 1e-12 if self.red else 1e-13     # numpy-scalar vs python-float arithmetic may differ in the last ulp
        tightmode = self.box is not None and (self.box.get('tight') or self.box.get('clip') is not None)
        ctx = dict(step=step, solver=cfg['solver'], cons=self.cons_spec, box=None if self.box is None else [self.box['lo'], self.box['hi']],
                   mode=None if self.box is None else [self.box.get('tight'), self.box.get('clip')], pen=cfg.get('pen'), reducer=cfg.get('reducer'))
        if focus == 'c01' and finite and not self.stale:
            o.check(tuple(best) in self.seen, 'c01:reported best solution is a point where the cost was actually called',
                    best=best, bestE=bestE, **ctx)
            fb = self.F(best)
            extra = {}
            if self.red and cfg.get('reducer') == 'sum' and cfg.get('pen') is not None:
                n = len(np.atleast_1d(self.raw(best)))
                extra = {'n_components': n, 'penalty_at_best': self.refpen(best)}
            o.check(feq(bestE, fb, rel), 'c01:reported best energy equals cost(+reducer)+penalty at the reported best', best=best,
                    observed=bestE, expected=fb, **dict(ctx, **extra))
            # every member's stored energy is the objective at that member
            if (cfg['solver'] in ('de', 'de2')) or sn['gens'] >= 1:
                for m, e in zip(sn['pop'], sn['ene']):
                    if e is None or e != e:
                        continue
                    # (an infinite stored energy is judged like any other: inside the closed box, with a finite cost, the objective is finite)
                    if tightmode:
                        cm = self.cons(m) if self.cons else list(m)
                        if cm != list(m) or not K.in_box(m, self.box):
                            o.event('member_not_judged')
                            continue
                    want = self.obj(m)
                    o.event('members_judged')
                    if not feq(e, want, rel if rel else 0.0):
                        extra = {}
                        if self.red and cfg.get('reducer') == 'sum' and cfg.get('pen') is not None:
                            cm = self.cons(m) if self.cons else list(m)
                            extra = {'n_components': len(np.atleast_1d(self.raw(cm))), 'penalty_at_best': self.refpen(cm)}
                        o.check(False, 'c01:stored member energy equals the objective at that member', member=m, observed=e, expected=want,
                                **dict(ctx, **extra))
                        break
                else:
                    o.event('assert:c01')
        if focus == 'c02' and self.box_from_start and finite and not cfg['box'].get('change'):
            o.check(K.in_box(best, self.box), 'c02:reported best (finite energy) lies inside the box', best=best, bestE=bestE, **ctx)
        if focus == 'c03' and self.cons_from_start and finite:
            cb = self.cons(best)
            o.check(cb == best, 'c03:reported solution satisfies the constraints', best=best, cbest=cb, bestE=bestE, stopped=bool(msg), **ctx)
            outside = self.box is not None and not K.in_box(best, self.box)
            if cb == best and outside and self.box_from_start:
                # ranges in force from the first iteration: the objective at a point outside them is infinite, so a finite energy cannot be that point's energy
                o.check(False, 'c03:reported energy is the energy of the constrained point', best=best, observed=bestE, expected=float('inf'), outside_the_ranges=True, **ctx)
            elif cb == best and not outside:
                fb = self.F(best)
                o.check(feq(bestE, fb, rel), 'c03:reported energy is the energy of the constrained point', best=best, observed=bestE, expected=fb, **ctx)
