# tools/mkprompt.py <PROP> <worktree name> "<sites to avoid>"  -> prompt text for a fresh sub-agent that writes a seeded change (sees only the property text)
import json, sys
pid, name, avoid = sys.argv[1], sys.argv[2], sys.argv[3] if len(sys.argv) > 3 else ''
p = [json.loads(l) for l in open('/verif/properties.jsonl') if json.loads(l)['id'] == pid][0]
wt = '/tmp/sa/%s' % name
print(f"""You are helping test a verification effort for the Python package uqfoundation/mystic (pure-Python constrained nonlinear optimization). Your job: write ONE realistic, subtle code change to mystic that BREAKS the semantic property below, while the package still imports and its existing test suite still passes. You work ONLY inside your own scratch git worktree: {wt} (a checkout of the repository; do not touch /repo or /verif, and do not read anything under /verif).

PROPERTY {p['id']}: {p['title']}
Statement: {p['statement']}
Quantifier: {p['quantifier']['text']}
Anchors (where the behaviour lives): {json.dumps(p['anchors']['mechanism'])}
Files: {', '.join(p['anchors']['files'])}

Requirements for the change:
- Edit only files under {wt}/mystic/ (not tests). Keep it small (1-12 lines in total), plausible as something a maintainer could write by mistake or as a "cleanup/optimisation" (off-by-one, wrong variable, dropped copy, swapped order, a falsy-zero `or`, a stale cache, a condition that is right for the common case only...).
- It must need something SPECIFIC to manifest: an unusual input, a particular multi-step sequence of API calls, a particular configuration combination, a fault/restart at a particular point, or two cooperating sites that each look fine alone. It must NOT be something ordinary default use exposes at once, and must not make mystic raise on import or in common use.
- {avoid}
- The existing test suite must still pass with the change. Run it from the worktree: cd {wt} && /venv/bin/python -m pytest -q -p no:cacheprovider --timeout=900 --continue-on-collection-errors mystic/tests 2>&1 | tail -5   (takes ~5-20 minutes when the machine is busy; run it in the background, redirecting output to a file inside your worktree, and keep working; NEVER use pkill or killall - other people run the same command on this machine; 213+ tests pass on the unchanged tree; compare against the unchanged tree if anything fails - a failure that also occurs without your change does not count against you).
- Python to use: /venv/bin/python. NOTE mystic is also installed elsewhere in editable mode; to be sure you import YOUR worktree copy, run scripts located in {wt} (sys.path[0] is then the worktree) and have the demo print mystic.__file__ and assert it starts with the directory of the demo file.

Deliverables, all written into {wt}/deliver/ :
1. patch.diff  - output of `git -C {wt} diff -- mystic` (the change only; applies with `git apply` at the worktree root).
2. demo.py - a small standalone program (no pytest needed) that, when copied to the root of a checkout and run there with /venv/bin/python demo.py, exits 1 (printing what went wrong in terms of the property) when the change is applied and exits 0 printing PASS on the unchanged tree. It must insert its own directory at sys.path[0] before importing mystic. It must be deterministic (seed random and numpy.random) and finish in under 2 minutes. Verify both outcomes yourself (flip the change with `git apply -R deliver/patch.diff` and `git apply deliver/patch.diff`; do NOT use `git stash` - the stash is shared between all worktrees of this repository and other people are using it).
3. notes.md - 10-25 lines: what the change is (file/function), why it breaks the property, exactly what is needed for it to manifest, why the existing tests do not notice, and the suite result you obtained.

Finish by making sure the worktree has the change applied and deliver/ holds the three files. Your final answer should be a 5-line summary (file changed, mechanism, what it needs to manifest, demo outcome with/without, suite outcome).""")
