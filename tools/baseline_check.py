#!/venv/bin/python
"""compare a junit xml produced by the baseline command with BASELINE.json's stable_pass set"""
import sys, json, xml.etree.ElementTree as ET
xml = sys.argv[1] if len(sys.argv) > 1 else '/verif/.out/baseline.xml'
base = json.load(open('/root/.vp/BASELINE.json'))
want = set(base['stable_pass'])
passed = set()
for tc in ET.parse(xml).getroot().iter('testcase'):
    ok = not any(ch.tag in ('failure', 'error', 'skipped') for ch in tc)
    if ok:
        passed.add('%s::%s' % (tc.get('classname'), tc.get('name')))
missing = sorted(want - passed)
print('stable_pass=%d passed_now=%d missing=%d' % (len(want), len(passed), len(missing)))
for m in missing: print('  NOT PASSING:', m)
sys.exit(1 if missing else 0)
