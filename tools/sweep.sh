#!/bin/bash
# tools/sweep.sh "C01 C02 ..." "0 1 2 3" [tier]   -> one line per (check, seed)
props=${1:-"C01 C02 C03 C10 C15 C16 C17 C18 C19 C20"}; seeds=${2:-"0 1 2 3 4 5 6 7"}; tier=${3:-quick}
for p in $props; do for s in $seeds; do
  VERIF_SEED=$s /verif/check $p --tier $tier > /verif/.out/sweep.$p.$s.log 2>&1; rc=$?
  echo "$p seed=$s rc=$rc viol=$(grep -c '^VIOLATION' /verif/.out/sweep.$p.$s.log) inc=$(grep -c '^INCONCLUSIVE' /verif/.out/sweep.$p.$s.log) $(head -1 /verif/.out/sweep.$p.$s.log | sed 's/.*wall=//')"
done; done
