#!/venv/bin/python
"""automated single-site mutation sweep: how many small semantic edits of an anchored file do the checks notice?

usage: tools/mutsweep.py <file under mystic/, e.g. mystic/penalty.py> --checks C15,C14 [--max 60] [--seed 0] [--funcs a,b] [--cover C15]
  * mutation sites are enumerated on the AST (comparison / arithmetic / boolean operators, numeric and boolean constants,
    min<->max, dropped [:] copies, dropped `not` / unary minus, += <-> -=, deleted call statements); with --cover only sites on
    lines reached by that check's workload (.out/cover/<ID>.json from tools/cover.sh) are used
  * each mutant is written into a scratch copy of /repo (under /tmp, removed afterwards) and the listed checks run against it with
    MYSTIC_VERIF_REPO; the first check that exits 1 "kills" it.  exit 2 (inconclusive) and exit 0 are recorded as such
  * result: .out/mutsweep/<file>.<seed>.json (one record per mutant) and a summary line; survivors are listed with their source line
This is a diagnostic for widening generators (DESIGN section 9); it never touches /repo and its output is not evidence."""
import sys, os, ast, json, copy, random, shutil, subprocess, tempfile, argparse, time

ap = argparse.ArgumentParser()
ap.add_argument('file'); ap.add_argument('--checks', required=True); ap.add_argument('--max', type=int, default=60)
ap.add_argument('--seed', type=int, default=0); ap.add_argument('--funcs', default=None); ap.add_argument('--cover', default=None)
ap.add_argument('--lines', default=None, help='a-b[,c-d] line ranges'); ap.add_argument('--tier', default='quick')
a = ap.parse_args()
V = '/verif'
src_path = os.path.join('/repo', a.file)
src = open(src_path).read()
tree = ast.parse(src)

covered = None
if a.cover:
    cj = json.load(open('%s/.out/cover/%s.json' % (V, a.cover)))['files']
    k = [n for n in cj if n.endswith(a.file)]
    covered = set(cj[k[0]]['executed_lines']) if k else set()
ranges = None
if a.lines:
    ranges = [tuple(map(int, r.split('-'))) for r in a.lines.split(',')]
funcs = set(a.funcs.split(',')) if a.funcs else None

# ---- enumerate sites
CMP = {ast.Lt: ast.LtE, ast.LtE: ast.Lt, ast.Gt: ast.GtE, ast.GtE: ast.Gt, ast.Eq: ast.NotEq, ast.NotEq: ast.Eq, ast.Is: ast.IsNot, ast.IsNot: ast.Is,
       ast.In: ast.NotIn, ast.NotIn: ast.In}
BIN = {ast.Add: ast.Sub, ast.Sub: ast.Add, ast.Mult: ast.Div, ast.Div: ast.Mult}
sites = []          # (kind, path-id, lineno, description)


class Enum(ast.NodeVisitor):
    def __init__(self):
        self.stack = []
        self.n = 0

    def generic_visit(self, node):
        self.n += 1
        node._mid = self.n
        fn = None
        if isinstance(node, (ast.FunctionDef, ast.AsyncFunctionDef)):
            self.stack.append(node.name)
        ln = getattr(node, 'lineno', None)
        inside = (funcs is None or any(f in funcs for f in self.stack)) and (ranges is None or (ln and any(lo <= ln <= hi for lo, hi in ranges))) \
            and (covered is None or (ln in covered))
        if inside and ln:
            if isinstance(node, ast.Compare):
                for i, op in enumerate(node.ops):
                    if type(op) in CMP: sites.append(('cmp', node._mid, ln, i))
            elif isinstance(node, ast.BinOp) and type(node.op) in BIN and not any(isinstance(getattr(o, 'value', None), str) for o in (node.left, node.right)):
                sites.append(('bin', node._mid, ln, None))
            elif isinstance(node, ast.BoolOp):
                sites.append(('bool', node._mid, ln, None))
            elif isinstance(node, ast.UnaryOp) and isinstance(node.op, (ast.Not, ast.USub)):
                sites.append(('unary', node._mid, ln, None))
            elif isinstance(node, ast.Constant) and isinstance(node.value, bool):
                sites.append(('boolconst', node._mid, ln, None))
            elif isinstance(node, ast.Constant) and isinstance(node.value, (int, float)) and not isinstance(node.value, bool):
                sites.append(('num', node._mid, ln, None))
            elif isinstance(node, ast.Call) and isinstance(node.func, ast.Name) and node.func.id in ('min', 'max', 'any', 'all'):
                sites.append(('minmax', node._mid, ln, None))
            elif isinstance(node, ast.Subscript) and isinstance(node.slice, ast.Slice) and node.slice.lower is None and node.slice.upper is None \
                    and node.slice.step is None and isinstance(node.ctx, ast.Load):
                sites.append(('copy', node._mid, ln, None))
            elif isinstance(node, ast.AugAssign) and type(node.op) in BIN:
                sites.append(('aug', node._mid, ln, None))
            elif isinstance(node, ast.Expr) and isinstance(node.value, ast.Call):
                sites.append(('delcall', node._mid, ln, None))
        super().generic_visit(node)
        if isinstance(node, (ast.FunctionDef, ast.AsyncFunctionDef)):
            self.stack.pop()


Enum().visit(tree)
# docstring constants are not numeric; string BinOps were excluded above
rng = random.Random(a.seed)
rng.shuffle(sites)
sites = sites[:a.max]


def mutate(kind, mid, extra):
    t = copy.deepcopy(tree)
    n = 0
    for node in ast.walk(t):
        pass
    # re-number identically
    class Renum(ast.NodeVisitor):
        def __init__(s): s.n = 0; s.hit = None
        def generic_visit(s, node):
            s.n += 1
            if s.n == mid: s.hit = node
            super().generic_visit(node)
    r = Renum(); r.visit(t)
    node = r.hit
    if kind == 'cmp': node.ops[extra] = CMP[type(node.ops[extra])]()
    elif kind == 'bin': node.op = BIN[type(node.op)]()
    elif kind == 'aug': node.op = BIN[type(node.op)]()
    elif kind == 'bool': node.op = ast.Or() if isinstance(node.op, ast.And) else ast.And()
    elif kind == 'unary':
        # replace the node by its operand
        for parent in ast.walk(t):
            for f, v in ast.iter_fields(parent):
                if v is node: setattr(parent, f, node.operand)
                elif isinstance(v, list) and node in v: v[v.index(node)] = node.operand
    elif kind == 'boolconst': node.value = not node.value
    elif kind == 'num': node.value = (1 if node.value == 0 else (0 if node.value == 1 else (node.value + 1 if isinstance(node.value, int) else node.value * 2)))
    elif kind == 'minmax': node.func.id = {'min': 'max', 'max': 'min', 'any': 'all', 'all': 'any'}[node.func.id]
    elif kind == 'copy':
        for parent in ast.walk(t):
            for f, v in ast.iter_fields(parent):
                if v is node: setattr(parent, f, node.value)
                elif isinstance(v, list) and node in v: v[v.index(node)] = node.value
    elif kind == 'delcall':
        for parent in ast.walk(t):
            for f, v in ast.iter_fields(parent):
                if isinstance(v, list) and node in v: v[v.index(node)] = ast.Pass()
    ast.fix_missing_locations(t)
    return ast.unparse(t)


scratch = tempfile.mkdtemp(prefix='msw.', dir='/tmp')
out = []
try:
    subprocess.run('cp -r /repo/mystic %s/mystic' % scratch, shell=True, check=True)
    target = os.path.join(scratch, a.file)
    lines = src.splitlines()
    t0 = time.time()
    for kind, mid, ln, extra in sites:
        try:
            code = mutate(kind, mid, extra)
            compile(code, a.file, 'exec')
        except Exception as e:
            continue
        open(target, 'w').write(code)
        rec = {'kind': kind, 'line': ln, 'source': lines[ln - 1].strip()[:140], 'result': 'survived', 'by': None}
        for c in a.checks.split(','):
            env = dict(os.environ, MYSTIC_VERIF_REPO=scratch, PYTHONDONTWRITEBYTECODE='1', VERIF_SEED=str(a.seed))
            try:
                r = subprocess.run('%s/check %s --tier %s' % (V, c, a.tier), shell=True, capture_output=True, text=True, env=env, timeout=1500)
                rc = r.returncode
            except subprocess.TimeoutExpired:
                rc = 2
            if rc == 1:
                cl = [l.strip() for l in r.stdout.splitlines() if l.strip().startswith('clause=')][:1]
                rec.update(result='killed', by=c, clause=cl[0][:120] if cl else None); break
            if rc == 2: rec.update(result='inconclusive', by=c)
        out.append(rec)
        print('%-12s %-9s l.%-5d %-10s %s' % (rec['result'], kind, ln, rec['by'] or '', rec['source'][:90]), flush=True)
    open(target, 'w').write(src)
finally:
    shutil.rmtree(scratch, ignore_errors=True)
os.makedirs(V + '/.out/mutsweep', exist_ok=True)
json.dump(out, open('%s/.out/mutsweep/%s.%d.json' % (V, a.file.replace('/', '_'), a.seed), 'w'), indent=1)
k = sum(1 for r in out if r['result'] == 'killed'); s = sum(1 for r in out if r['result'] == 'survived'); i = len(out) - k - s
print('SUMMARY %s checks=%s mutants=%d killed=%d survived=%d inconclusive=%d wall=%.0fs' % (a.file, a.checks, len(out), k, s, i, time.time() - t0))
