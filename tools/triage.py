#!/venv/bin/python
"""summarise replay files of a property: counts per (class, clause, solver/decorator) and one example each"""
import sys, json, glob, collections
prop = sys.argv[1]
n = int(sys.argv[2]) if len(sys.argv) > 2 else 6
width = int(sys.argv[3]) if len(sys.argv) > 3 else 900
c = collections.Counter(); ex = {}
for f in sorted(glob.glob('/verif/replays/%s-*.json' % prop)):
    d = json.load(open(f))
    for r in d['records']:
        k = (d['class'], r['clause'][:80], str(r.get('solver') or d['desc'].get('solver') or d['desc'].get('wrapper') or ''),
             str(r.get('mode')), str((r.get('cons') or [''])[0]))
        c[k] += 1
        ex.setdefault(k, (f, d['desc'], r))
for k, v in c.most_common(): print(v, k)
for k, (f, d, r) in list(ex.items())[:n]:
    print('---', k, f)
    print('DESC', json.dumps(d)[:width])
    print('REC ', json.dumps(r)[:width])
