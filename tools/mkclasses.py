#!/venv/bin/python
# tools/mkclasses.py -> rewrites the generated class list of DESIGN.md section 4b (between the classes:begin / classes:end markers)
import sys, importlib, re
sys.path.insert(0, '/verif'); sys.path.insert(0, '/repo')
lines = []
for i in range(1, 21):
    m = importlib.import_module('mv.props.c%02d' % i)
    cl = '; '.join('`%s` %d / %d%s' % (c, d.get('quick', 0), d.get('thorough', d.get('quick', 0)), ' (hostile)' if d.get('hostile') else '') for c, d in m.CLASSES.items())
    me = m.MIN_EVENTS.get('quick', {}) if hasattr(m, 'MIN_EVENTS') else {}
    lines.append('* **C%02d** — %s.  Deciding monitor minimums: %s.' % (i, cl, ', '.join('%s≥%d' % kv for kv in me.items()) or 'none'))
p = '/verif/DESIGN.md'
s = open(p).read()
a, b = s.index('<!-- classes:begin -->'), s.index('<!-- classes:end -->')
tail = '\nThe classes added after the first build (seeded rounds 2–10, the option audit and the mutation sweeps) are described in §10.\n'
s = s[:a] + '<!-- classes:begin -->\n' + '\n'.join(lines) + '\n' + tail + s[b:]
open(p, 'w').write(s)
print('\n'.join(lines))
