# build round-g prompts: avoid text from the actual seeded patches
import json, sys, glob, os, re, subprocess
suffix = sys.argv[1]
props = ['C%02d' % i for i in range(1, 21)]
for pid in props:
    taken = []
    for d in sorted(glob.glob('/verif/seeded/%s*' % pid)):
        pf = os.path.join(d, 'patch.diff')
        if not os.path.exists(pf): continue
        cur = None
        for line in open(pf):
            if line.startswith('+++ b/'): cur = line[6:].strip()
            elif line.startswith('@@'):
                m = re.search(r'@@.*@@\s*(.*)', line)
                ctx = m.group(1).strip()[:60] if m else ''
                taken.append('%s [%s]' % (cur, ctx))
    taken = sorted(set(taken))
    avoid = ("This round asks for a change of one of these kinds: (a) ALIASING / COPY semantics - a dropped copy, a view instead of a copy, a shared mutable default, so that the library "
             "mutates something the user passed in (start vector, bounds, masks, sample lists, monitors) or two objects come to share state, and the property fails only when the user reuses or edits that object afterwards; "
             "(b) a BOUNDARY slip inside an algorithm - an off-by-one in a window, slice, range or generation index, '<' for '<=', first/last element mishandled - that is invisible unless the input sits exactly on that boundary; "
             "(c) a FAILURE / EARLY-EXIT path - state left inconsistent after an exception raised inside the user's cost, constraint or callback, after an interrupt / exit request, after a limit of 0 or 1, or after an empty input. "
             "Earlier rounds already changed these places (do NOT reuse the same edit; a different mechanism nearby is fine): " + ' | '.join(taken) + '.')
    name = 'seed%s%s' % (pid, suffix)
    out = subprocess.run([sys.executable, '/verif/tools/mkprompt.py', pid, name, avoid], capture_output=True, text=True).stdout
    open('/tmp/sa/prompt.%s%s.txt' % (pid, suffix), 'w').write(out)
    print(pid, len(taken), len(out))
