# build round-g prompts: avoid text from the actual seeded patches
import json, sys, glob, os, re, subprocess
suffix = sys.argv[1]
props = ['C%02d' % i for i in range(1, 21)]
for pid in props:
    taken = []
    for d in sorted(glob.glob('/verif/seeded/%s*' % pid)):
        pf = os.path.join(d, 'patch.diff')
        if not os.path.exists(pf): continue
        cur = None
        for line in open(pf):
            if line.startswith('+++ b/'): cur = line[6:].strip()
            elif line.startswith('@@'):
                m = re.search(r'@@.*@@\s*(.*)', line)
                ctx = m.group(1).strip()[:60] if m else ''
                taken.append('%s [%s]' % (cur, ctx))
    taken = sorted(set(taken))
    avoid = ("This round asks for a change of one of these kinds: (a) an INTERACTION of two features that each still work alone - the property fails only when both are in use together "
             "(e.g. a penalty with a reducer, constraints with a change of ranges, monitors with a restart, a map with an evaluation monitor, a mask with an index, two decorators stacked, a tolerance with a named constant); "
             "(b) a LIFECYCLE slip - an object used again after it finished or was reset: a second Solve on the same solver, Finalize then Step, clear() then reuse, a monitor or termination object or constraint shared by two users, "
             "a generator or iterator consumed twice, state that should have been re-initialised and was not (or was, and should not have been); "
             "(c) a DOCSTRING CONTRACT - something a docstring example, note or documented default of the anchored functions promises explicitly and the existing tests never check. "
             "Earlier rounds already changed these places (do NOT reuse the same edit; a different mechanism nearby is fine): " + ' | '.join(taken) + '.')
    name = 'seed%s%s' % (pid, suffix)
    out = subprocess.run([sys.executable, '/verif/tools/mkprompt.py', pid, name, avoid], capture_output=True, text=True).stdout
    open('/tmp/sa/prompt.%s%s.txt' % (pid, suffix), 'w').write(out)
    print(pid, len(taken), len(out))
