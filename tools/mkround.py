# build round-g prompts: avoid text from the actual seeded patches
import json, sys, glob, os, re, subprocess
suffix = sys.argv[1]
props = ['C%02d' % i for i in range(1, 21)]
for pid in props:
    taken = []
    for d in sorted(glob.glob('/verif/seeded/%s*' % pid)):
        pf = os.path.join(d, 'patch.diff')
        if not os.path.exists(pf): continue
        cur = None
        for line in open(pf):
            if line.startswith('+++ b/'): cur = line[6:].strip()
            elif line.startswith('@@'):
                m = re.search(r'@@.*@@\s*(.*)', line)
                ctx = m.group(1).strip()[:60] if m else ''
                taken.append('%s [%s]' % (cur, ctx))
    taken = sorted(set(taken))
    avoid = ("This round asks for NOVELTY of place and for a REFACTOR-style change: (a) the edit must be in a function that none of the earlier changes listed below touched - look further afield: helpers, "
             "other classes of the same family, setters/getters, __init__ defaults, alternative entry points, code the anchored functions call two levels down; "
             "(b) write it as a plausible refactor rather than a slip - a loop turned into a vectorised numpy expression or a comprehension, a computed value cached or hoisted out of a loop, an early return added for a "
             "'trivial' case, two similar branches merged, a helper inlined or extracted, an explicit copy replaced by a view, isinstance checks reordered - where the new form is NOT quite equivalent for some inputs; "
             "(c) you may look at the scripts under examples/ and examples2/..examples5/ of the checkout (if present) for realistic ways the API is used, and break something such usage relies on. "
             "Earlier rounds already changed these places (do NOT touch these functions again): " + ' | '.join(taken) + '.')
    name = 'seed%s%s' % (pid, suffix)
    out = subprocess.run([sys.executable, '/verif/tools/mkprompt.py', pid, name, avoid], capture_output=True, text=True).stdout
    open('/tmp/sa/prompt.%s%s.txt' % (pid, suffix), 'w').write(out)
    print(pid, len(taken), len(out))
