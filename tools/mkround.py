# build round-g prompts: avoid text from the actual seeded patches
import json, sys, glob, os, re, subprocess
suffix = sys.argv[1]
props = ['C%02d' % i for i in range(1, 21)]
for pid in props:
    taken = []
    for d in sorted(glob.glob('/verif/seeded/%s*' % pid)):
        pf = os.path.join(d, 'patch.diff')
        if not os.path.exists(pf): continue
        cur = None
        for line in open(pf):
            if line.startswith('+++ b/'): cur = line[6:].strip()
            elif line.startswith('@@'):
                m = re.search(r'@@.*@@\s*(.*)', line)
                ctx = m.group(1).strip()[:60] if m else ''
                taken.append('%s [%s]' % (cur, ctx))
    taken = sorted(set(taken))
    avoid = ("This round asks for a change of one of these kinds: (a) NUMERICS / TYPES - integer instead of float division, an int dtype kept where floats are needed, float equality where a tolerance was, "
             "a tolerance or constant off by a factor, inf/nan/-0.0/overflow handled differently, precision lost by a needless round-trip through str/repr or float32; "
             "(b) ORDER dependence - results that come to depend on dict/set iteration order, on the order of keyword arguments, list entries, mask entries or constraint lines, an unstable tie-break, sorted vs unsorted input; "
             "(c) a broken EQUIVALENCE between two routes the documentation treats as the same - keyword vs positional argument, an explicit argument equal to the documented default vs the default itself, an alias or thin wrapper vs the "
             "function it wraps, the one-line wrapper vs the class API, a method vs the module-level function behind it. "
             "Earlier rounds already changed these places (do NOT reuse the same edit; a different mechanism nearby is fine): " + ' | '.join(taken) + '.')
    name = 'seed%s%s' % (pid, suffix)
    out = subprocess.run([sys.executable, '/verif/tools/mkprompt.py', pid, name, avoid], capture_output=True, text=True).stdout
    open('/tmp/sa/prompt.%s%s.txt' % (pid, suffix), 'w').write(out)
    print(pid, len(taken), len(out))
