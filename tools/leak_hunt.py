#!/venv/bin/python
"""re-run, in one process, the cases a worker ran before a flaky violation to find cross-case state leaks
usage: tools/leak_hunt.py C04 programs 2975 [nworkers=16] [tier=thorough]"""
import sys, json
sys.path.insert(0, '/verif')
from mv import runner, env
prop, cls, idx = sys.argv[1], sys.argv[2], int(sys.argv[3])
n = int(sys.argv[4]) if len(sys.argv) > 4 else 16
tier = sys.argv[5] if len(sys.argv) > 5 else 'thorough'
mod = runner.load(prop)
cases = runner.all_cases(mod, tier)
gi = cases.index((cls, idx))
k = gi % n
mine = [c for i, c in enumerate(cases) if i % n == k and i <= gi]
print('worker', k, 'ran', len(mine), 'cases up to the target')
import os
devnull = open(os.devnull, 'w')
bad_at = None
for j, (c, i) in enumerate(mine):
    so = sys.stdout; sys.stdout = devnull
    try: r = runner.run_one(mod, c, i, env.seed())
    finally: sys.stdout = so
    if r['violations'] and (c, i) == (cls, idx):
        print('target violated after', j, 'predecessors:', r['violations'][0]['clause'])
    elif r['violations']:
        print('  (also violated: %s %d %s)' % (c, i, r['violations'][0]['clause'][:60]))
