#!/bin/bash
# tools/mutate.sh <PROP[,PROP..]> <relative file> <python-regex-old> <new>   (first match only unless ALL=1)
# applies one textual change to a scratch copy of /repo (outside /repo and /verif), runs the quick check(s)
# against it via MYSTIC_VERIF_REPO, prints the verdict, removes the copy.
set -u
props=$1; file=$2; old=$3; new=$4
d=$(mktemp -d /tmp/mut.XXXXXX)
rsync -a --exclude .git --exclude '*.pyc' --exclude __pycache__ /repo/mystic "$d"/ 
/venv/bin/python - "$d/$file" "$old" "$new" <<'PY'
import sys, re
p, old, new = sys.argv[1:4]
s = open(p).read()
import os
cnt = 0 if os.environ.get('ALL') else 1
s2, n = re.subn(old, new, s, count=cnt, flags=re.M)
if not n: sys.exit('pattern not found: %r' % old)
open(p, 'w').write(s2)
print('mutated %s (%d site)' % (p, n))
PY
rc=$?
if [ $rc -eq 0 ]; then
  for p in ${props//,/ }; do
    MYSTIC_VERIF_REPO=$d /verif/check $p --tier ${TIER:-quick} 2>&1 | grep -v "^monitor events" | head -${LINES_OUT:-6}
    echo "== $p exit=${PIPESTATUS[0]}"
  done
fi
rm -rf "$d"
