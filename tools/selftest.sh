#!/bin/bash
# tools/selftest.sh  -> applies every edit of tools/selftest.list to a scratch copy (tools/mutate.sh) and reports which checks noticed it
cd /verif
ok=0; bad=0
grep -v '^#' tools/selftest.list | while IFS='|' read -r props file old new; do
  [ -z "$props" ] && continue
  out=$(tools/mutate.sh "$props" "$file" "$old" "$new" 2>&1)
  if echo "$out" | grep -q "pattern not found"; then echo "STALE   $props $file :: $old"; continue; fi
  res=$(echo "$out" | grep "^== " | tr '\n' ' ')
  if echo "$res" | grep -q "exit=0\|exit=2"; then echo "MISSED  $props $file :: $res"; else echo "caught  $props $file :: $res"; fi
done
rm -rf /tmp/mut.*
