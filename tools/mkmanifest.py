#!/venv/bin/python
"""regenerate MANIFEST.json from the property modules that exist (metadata lives in each module)"""
import os, sys, json, importlib
HERE = os.path.dirname(os.path.dirname(os.path.abspath(__file__)))
sys.path.insert(0, HERE)
from mv import env
env.setup_paths()
props = [json.loads(l)['id'] for l in open(os.path.join(HERE, 'properties.jsonl'))]
checks, na = [], []
for pid in props:
    path = os.path.join(HERE, 'mv', 'props', pid.lower() + '.py')
    if not os.path.exists(path):
        na.append({'property_id': pid, 'reason': 'monitor not built yet in this round (design in DESIGN.md section 4); not a limitation of the technique'})
        continue
    m = importlib.import_module('mv.props.' + pid.lower())
    if getattr(m, 'NOT_CLAIMED', None):
        na.append({'property_id': pid, 'reason': m.NOT_CLAIMED}); continue
    checks.append({
        'property_id': pid,
        'quick_cmd': './check %s --tier quick' % pid,
        'thorough_cmd': './check %s --tier thorough' % pid,
        'evidence_file': 'evidence/%s.json' % pid,
        'replay_cmd_template': './check %s --replay {path}' % pid,
        'engine': 'mv',
        'level_claimed': {'category': getattr(m, 'LEVEL', 'exploration'),
                          'text': getattr(m, 'LEVEL_TEXT', 'held on the generated executions observed by the monitors; says nothing about inputs the generators do not produce'),
                          'design_ref': 'DESIGN.md section 4, %s' % pid},
        'level_note': getattr(m, 'LEVEL_NOTE', '; '.join(getattr(m, 'ASSUMPTIONS', [])) or 'trusted base: CPython, numpy, the harness oracles in mv/refs'),
        'technique': getattr(m, 'TECHNIQUE', 'runtime monitoring with executable oracle'),
    })
man = {
    'version': 1,
    'setup_cmd': './setup.sh',
    'hooks': {'guard': 'MYSTIC_VERIF',
              'enable': 'MYSTIC_VERIF=1 (no source hooks are needed so far: every monitor attaches from the harness by wrapping user-supplied callables, public solver entry points and late-bound module globals)',
              'baseline_off_cmd': 'cd /repo && env -u MYSTIC_VERIF /venv/bin/python -m pytest -ra -q -p no:cacheprovider --timeout=900 --continue-on-collection-errors --junitxml=/verif/.out/baseline.xml',
              'source_commits': [], 'add_only': True},
    'engines': [{'name': 'mv', 'path': 'mv/', 'serves_properties': [c['property_id'] for c in checks],
                 'kind_free_text': 'runtime monitors + executable reference models over generated workloads, sharded over 16 worker processes'}],
    'checks': checks,
    'not_applicable': na,
    'notes': 'Verdicts are three-valued: exit 0 held, exit 1 VIOLATION, exit 2 INCONCLUSIVE (never expected on the unchanged tree). Known findings: known_findings.json.',
}
json.dump(man, open(os.path.join(HERE, 'MANIFEST.json'), 'w'), indent=1)
import jsonschema
jsonschema.validate(man, json.load(open(os.path.join(HERE, 'schemas', 'MANIFEST.schema.json'))))
print('MANIFEST.json: %d checks, %d not_applicable' % (len(checks), len(na)))
