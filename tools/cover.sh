#!/bin/bash
# tools/cover.sh "C01 C02 ..." [tier]  -> line coverage of /repo/mystic reached by the listed checks (diagnostic; needs `coverage` in /venv)
# writes .out/cover/<ID>.json (per check) ; prints per-file summary for the files anchored by each property
props=${1:-"C01 C02 C03 C04 C05 C06 C07 C08 C09 C10 C11 C12 C13 C14 C15 C16 C17 C18 C19 C20"}; tier=${2:-quick}
cd /verif; mkdir -p .out/cover
for p in $props; do
  d=/verif/.out/cover/$p.d; rm -rf $d; mkdir -p $d
  MV_COVER=$d COVERAGE_CORE=sysmon ./check $p --tier $tier > $d/check.log 2>&1
  (cd $d && /venv/bin/python -m coverage combine -q --data-file=$d/.coverage $d/cov.* >/dev/null 2>&1; /venv/bin/python -m coverage json -q --data-file=$d/.coverage -o /verif/.out/cover/$p.json >/dev/null 2>&1)
  /venv/bin/python - $p <<'PY'
import json, sys
p = sys.argv[1]
prop = [json.loads(l) for l in open('/verif/properties.jsonl') if json.loads(l)['id'] == p][0]
cov = json.load(open('/verif/.out/cover/%s.json' % p))['files']
for f in prop['anchors']['files']:
    k = [n for n in cov if n.endswith(f)]
    if not k: print(p, f, 'NOT REACHED'); continue
    s = cov[k[0]]['summary']
    print('%s %-40s %4d/%4d lines (%.0f%%)' % (p, f, s['covered_lines'], s['num_statements'], s['percent_covered']))
PY
  rm -rf $d
done
