#!/venv/bin/python
"""run every check (quick tier) against every kept seeded change and write seeded/MATRIX.md + seeded/matrix.json.

usage: tools/crossmatrix.py [--only C01,C02b] [--checks C01,C02] [--seed 0]
Each change is applied to a scratch git worktree of /repo (outside /repo and /verif, removed afterwards) and the
checks run with MYSTIC_VERIF_REPO pointing at it, so /repo itself is never touched and evidence/ is not rewritten."""
import sys, os, json, subprocess, tempfile, shutil, argparse, glob, time
ap = argparse.ArgumentParser()
ap.add_argument('--only', default=None); ap.add_argument('--checks', default=None); ap.add_argument('--seed', default='0'); ap.add_argument('--diag', action='store_true', help='each change only against the check of its own property')
a = ap.parse_args()
V = '/verif'
ALL = ['C%02d' % i for i in range(1, 21)]
checks = a.checks.split(',') if a.checks else ALL
names = sorted(os.path.basename(d) for d in glob.glob(V + '/seeded/C*') if os.path.exists(d + '/patch.diff'))
if a.only: names = [n for n in names if n in a.only.split(',')]
mp = V + '/seeded/matrix.json'
matrix = json.load(open(mp)) if os.path.exists(mp) else {}
def sh(cmd, **kw): return subprocess.run(cmd, shell=True, capture_output=True, text=True, **kw)
for n in names:
    wt = tempfile.mkdtemp(prefix='xwt.', dir='/tmp'); os.rmdir(wt)
    try:
        r = sh('git -C /repo worktree add -q --detach %s HEAD' % wt); assert r.returncode == 0, r.stderr
        r = sh('git -C %s apply %s/seeded/%s/patch.diff' % (wt, V, n))
        if r.returncode: print(n, 'patch does not apply'); continue
        row = matrix.setdefault(n, {})
        for c in ([n[:3]] if a.diag else checks):
            env = dict(os.environ, MYSTIC_VERIF_REPO=wt, VERIF_SEED=a.seed, PYTHONDONTWRITEBYTECODE='1')
            t0 = time.time()
            r = sh('%s/check %s --tier quick' % (V, c), env=env, timeout=3600)
            cl = sorted(set(l.strip().split(' idx=')[0] for l in r.stdout.splitlines() if l.strip().startswith('clause=')))[:3]
            row[c] = {'exit': r.returncode, 'clauses': cl, 'wall_s': round(time.time() - t0, 1)}
            print(n, c, r.returncode, cl[:1], flush=True)
        json.dump(matrix, open(mp, 'w'), indent=1, sort_keys=True)
    finally:
        sh('git -C /repo worktree remove --force %s' % wt); shutil.rmtree(wt, ignore_errors=True)
sym = {0: '.', 1: 'X', 2: '?'}
with open(V + '/seeded/MATRIX.md', 'w') as f:
    f.write('# every quick check against every seeded change\n\n`X` = VIOLATION reported (exit 1), `.` = silent (exit 0), `?` = inconclusive (exit 2).\n'
            'Rows: seeded change (its own property is the first three characters). Columns: checks.\n\n')
    f.write('| change | ' + ' | '.join(c[1:] for c in ALL) + ' |\n|---|' + '---|' * len(ALL) + '\n')
    for n in sorted(matrix):
        f.write('| %s | ' % n + ' | '.join(sym.get(matrix[n].get(c, {}).get('exit'), ' ') for c in ALL) + ' |\n')
    notes = []
    for n in sorted(matrix):
        try:
            d = json.load(open('%s/seeded/%s/meta.json' % (V, n))).get('disposition')
        except Exception:
            d = None
        if d: notes.append('* %s - %s' % (n, d))
    if notes:
        f.write('\nKept but not claimed:\n\n' + '\n'.join(notes) + '\n')
