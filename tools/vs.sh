#!/bin/bash
# tools/vs.sh <seeded-name> "C01 C04" [tier] [seed]  -> run checks against the kept seeded change (scratch worktree, removed afterwards)
name=$1; checks=${2:-${name:0:3}}; tier=${3:-quick}; seed=${4:-0}
wt=$(mktemp -u /tmp/vswt.XXXXXX)
git -C /repo worktree add -q --detach $wt HEAD || exit 2
git -C $wt apply /verif/seeded/$name/patch.diff || { git -C /repo worktree remove --force $wt; exit 2; }
for c in $checks; do
  MYSTIC_VERIF_REPO=$wt VERIF_SEED=$seed /verif/check $c --tier $tier > /verif/.out/vs.$name.$c.log 2>&1; rc=$?
  echo "$name vs $c: rc=$rc $(grep -c '^VIOLATION' /verif/.out/vs.$name.$c.log) violations; $(grep -m1 'clause=' /verif/.out/vs.$name.$c.log | cut -c1-160)"
done
git -C /repo worktree remove --force $wt; rm -rf $wt
