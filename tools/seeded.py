#!/venv/bin/python
"""verify an independently written property-breaking change and run the checks against it.

usage: tools/seeded.py <name> <src_dir> <PROP> [--checks C01,C03] [--suite] [--tier quick]
  <src_dir> holds patch.diff, demo.py, notes.md (as delivered by the sub-agent)
Steps (all in a scratch git worktree of /repo outside /repo and /verif, removed afterwards):
  1. patch applies; demo FAILS (exit 1) with it and PASSES (exit 0) without it
  2. --suite: the pinned suite still passes with the patch (junit vs BASELINE stable_pass)
  3. each listed check is run against the patched tree (MYSTIC_VERIF_REPO=<worktree>)
Result: /verif/seeded/<name>/{patch.diff, demo.py, notes.md, meta.json}"""
import sys, os, json, subprocess, tempfile, shutil, argparse, time
ap = argparse.ArgumentParser()
ap.add_argument('name'); ap.add_argument('src'); ap.add_argument('prop')
ap.add_argument('--checks', default=None); ap.add_argument('--suite', action='store_true'); ap.add_argument('--tier', default='quick'); ap.add_argument('--no-checks', action='store_true')
a = ap.parse_args()
checks = (a.checks or a.prop).split(',')
wt = tempfile.mkdtemp(prefix='seedwt.', dir='/tmp')
os.rmdir(wt)
def sh(cmd, **kw):
    return subprocess.run(cmd, shell=True, capture_output=True, text=True, **kw)
meta = {'name': a.name, 'property': a.prop, 'verified_at': time.strftime('%Y-%m-%dT%H:%M:%SZ', time.gmtime())}
try:
    r = sh('git -C /repo worktree add -q --detach %s HEAD' % wt); assert r.returncode == 0, r.stderr
    meta['repo_head'] = sh('git -C /repo rev-parse --short HEAD').stdout.strip()
    patch = os.path.join(a.src, 'patch.diff'); demo = os.path.join(a.src, 'demo.py')
    r = sh('git -C %s apply %s' % (wt, patch)); meta['patch_applies'] = r.returncode == 0
    shutil.copy(demo, os.path.join(wt, 'demo_seeded.py')); demo = os.path.join(wt, 'demo_seeded.py')   # demos import mystic from their own directory / the cwd
    if r.returncode: print('PATCH DOES NOT APPLY', r.stderr); raise SystemExit(2)
    env = dict(os.environ, PYTHONDONTWRITEBYTECODE='1')
    r1 = sh('/venv/bin/python %s' % demo, cwd=wt, env=env, timeout=1200)
    where = sh('/venv/bin/python -c "import mystic; print(mystic.__file__)"', cwd=wt).stdout.strip()
    meta['demo_with_change'] = {'exit': r1.returncode, 'tail': (r1.stdout + r1.stderr)[-400:]}
    sh('git -C %s checkout -- .' % wt)
    r0 = sh('/venv/bin/python %s' % demo, cwd=wt, env=env, timeout=1200)
    meta['demo_without_change'] = {'exit': r0.returncode, 'tail': (r0.stdout + r0.stderr)[-200:]}
    meta['demo_ok'] = (r1.returncode == 1 and r0.returncode == 0)
    meta['mystic_imported_from'] = where
    print('demo: with change exit=%d, without exit=%d  (imports %s)' % (r1.returncode, r0.returncode, where))
    sh('git -C %s apply %s' % (wt, patch))
    if a.suite:
        t0 = time.time()
        sh('/venv/bin/python -m pytest -ra -q -p no:cacheprovider --timeout=900 --continue-on-collection-errors --junitxml=%s/junit.xml' % wt, cwd=wt, env=env, timeout=3000)
        c = sh('/venv/bin/python /verif/tools/baseline_check.py %s/junit.xml' % wt)
        meta['suite'] = {'ok': c.returncode == 0, 'summary': c.stdout.strip().splitlines()[:6], 'wall_s': round(time.time() - t0)}
        print('suite:', c.stdout.strip().splitlines()[0])
    meta['checks'] = {}
    for chk in ([] if a.no_checks else checks):
        e = dict(env, MYSTIC_VERIF_REPO=wt)
        t0 = time.time()
        r = sh('/verif/check %s --tier %s' % (chk, a.tier), env=e, timeout=7200)
        lines = r.stdout.splitlines()
        clauses = [l.strip() for l in lines if l.strip().startswith('clause=')][:4]
        meta['checks'][chk] = {'exit': r.returncode, 'tier': a.tier, 'caught': r.returncode == 1, 'first_clauses': clauses, 'wall_s': round(time.time() - t0, 1)}
        print('check %s: exit=%d %s' % (chk, r.returncode, clauses[:2]))
    out = os.path.join('/verif/seeded', a.name)
    os.makedirs(out, exist_ok=True)
    for f in ('patch.diff', 'demo.py', 'notes.md'):
        if os.path.exists(os.path.join(a.src, f)) and os.path.realpath(a.src) != os.path.realpath(out): shutil.copy(os.path.join(a.src, f), os.path.join(out, f))
    notes = open(os.path.join(a.src, 'notes.md')).read() if os.path.exists(os.path.join(a.src, 'notes.md')) else ''
    meta['needs_to_manifest'] = notes[:1500]
    meta['what_was_run'] = 'tools/seeded.py: patch applied to a scratch worktree of /repo@%s; demo run with and without it; %s; checks run with MYSTIC_VERIF_REPO=<worktree>' % (
        meta['repo_head'], 'pinned suite run and compared with BASELINE stable_pass' if a.suite else 'suite result taken from the author run (junit.xml) and re-run separately')
    old = {}
    mp = os.path.join(out, 'meta.json')
    if os.path.exists(mp):
        old = json.load(open(mp))
        if 'suite' in old and 'suite' not in meta: meta['suite'] = old['suite']
        oc = old.get('checks', {}); oc.update(meta['checks']); meta['checks'] = oc
    json.dump(meta, open(mp, 'w'), indent=1)
finally:
    sh('git -C /repo worktree remove --force %s' % wt)
    shutil.rmtree(wt, ignore_errors=True)
